"""C13 - [nop] padding is invisible to the decoder."""
from vmon import env, hooks, scopes, tablegen
from vmon.hooks import MON, call_guard
from vmon.refsem import tokens_with_dots, classify
from vmon.selfgen import LiveGen, mutate_symbols
from vmon.zygote import jsonable

ID = "C13"
LEVEL = "exploration"
RULE = ("live, mutated-dataset and junk-containing SELFIES strings (incl. ones that raise), each compared with variants that have "
        "[nop] forced into every index position, directly after every branch/ring symbol, at fragment edges, at random positions "
        "(several per gap), and - for strings of <= 12 symbols - every single insertion exhaustively; outcome = value or exception "
        "type, also with attribute=True (first component), and through selfies_to_encoding/encoding_to_selfies padding. The token "
        "tap M6 counts [nop] symbols the decoder's tokenizer really consumed in index positions. distinct = distinct (base, variant); "
        "non-trivial = base string with at least one branch or ring symbol that is reached")
ASSUMPTIONS = ["'index position' = one of the L symbols following a [..BranchL]/[..RingL] symbol in the token list"]


def shards(tier):
    return 16


def floors(tier):
    return {"variants": 20000, "bases": 1500, "nop_in_index_position": 5000, "nop_after_branch_or_ring": 5000,
            "exhaustive_single_insertions": 3000, "padding_roundtrips": 1000, "bases_that_raise": 50, "M6.calls": 20000,
            "nop_at_fragment_edge": 2000, "bases_with_empty_fragment": 100, "deep_nesting_variants": 40, "long_nop_runs": 50, "soak_distinct_symbols": 100000, "bases.after_soak": 100}


def outcome(sf, x, **k):
    r = call_guard(lambda: sf.decoder(x, **k), expected=(sf.DecoderError,))
    if r[0] == "ok":
        return ("ok", jsonable(r[1]) if k.get("attribute") else r[1])
    if r[0] == "err":
        return ("err", r[1])
    return ("esc", r[1], r[2])


def run(ctx):
    sf = env.varied(env.load_selfies(), ctx)
    hooks.attach_m6()
    rng = ctx.rng
    quick = ctx.tier == "quick"
    data = []
    for s in scopes.dataset_smiles(60)[ctx.shard::ctx.nshards][:30]:
        r = call_guard(lambda: sf.encoder(s, strict=False), expected=(sf.EncoderError,))
        if r[0] == "ok":
            data.append(r[1])
    pool = scopes.SETS["core"][:-1] + ['[=O]', '[Branch2]', '[Ring2]', '[#Branch3]', '[P]', '[S]', '[epsilon]']
    def workload(nbase, tag):
        nonlocal table, g
        for i in range(nbase):
            if i % 30 == 0:
                t = rng.choice(["default", "hypervalent", "octet_rule", tablegen.random_table(rng)])
                sf.set_semantic_constraints(t)
                table = sf.get_semantic_constraints()
                g = LiveGen(table, rng, p_branch=0.22, p_ring=0.2)
            kind = rng.random()
            if kind < 0.6:
                x = g.string(nfrag=rng.choice([1, 1, 2, 3, 3, 10, 40]), length=(rng.choice([5, 10, 30, 80]) if i % 50 else rng.choice([400, 1200])) if rng.random() < 0.85 else 5)
            elif kind < 0.8 and data:
                x = "".join(mutate_symbols(tokens_with_dots(rng.choice(data)), rng, pool))
            else:
                x = g.string(1, rng.choice([4, 8, 12]))
            toks = [t for t in tokens_with_dots(x) if t != "[nop]"]
            if rng.random() < 0.2 and toks:
                toks.insert(rng.randrange(len(toks) + 1), rng.choice(['[Xx]', '[Branch9]', '[CH9]']))
            if rng.random() < 0.12:
                # empty fragments: a [nop]-only fragment between two dots is the same as nothing between them
                toks.insert(rng.randrange(len(toks) + 1), ".")
                ctx.count("bases_with_empty_fragment")
            base = "".join(toks)
            r0 = outcome(sf, base)
            ra0 = outcome(sf, base, attribute=True)
            rc0 = outcome(sf, base, compatible=True)
            ctx.count("bases" + tag)
            if r0[0] != "ok":
                ctx.count("bases_that_raise")
            if r0[0] == "esc":
                ctx.finding("escape:%s@%s" % (r0[1], r0[2]), {"selfies": base, "table": table}, "base string")
                continue
            has_br = any(classify(t) and classify(t)[0] in ("branch", "ring") for t in toks if t != ".")

            def variant(positions, tag):
                """positions: list of indices in toks before which one [nop] goes (len(toks) = at the end)."""
                out = []
                ps = sorted(positions)
                k = 0
                for idx, t in enumerate(toks):
                    while k < len(ps) and ps[k] == idx:
                        out.append("[nop]")
                        k += 1
                    out.append(t)
                out += ["[nop]"] * (len(ps) - k)
                y = "".join(out)
                del MON.token_log[:]
                r = outcome(sf, y)
                ctx.count("variants")
                ctx.case((base, y), has_br, sample={"base": base[:150], "variant": y[:200], "outcome": r[0]} if has_br and len(toks) > 6 else None)
                payload = {"selfies": base, "variant": y if len(y) < 3000 else None, "table": table, "placement": tag,
                           "nop_positions": ps if len(ps) < 50 else [ps[0], len(ps)]}
                if r != r0:
                    ctx.finding("nop-changes-decoder-outcome", payload, "%r -> %r" % (r0, r)[:600])
                ra = outcome(sf, y, attribute=True)
                if ra != ra0 or (ra[0] == "ok" and ra[1][0] != r0[1]):
                    ctx.finding("nop-changes-decoder-outcome-with-attribution", payload, "%r -> %r" % (ra0, ra)[:600])
                rc = outcome(sf, y, compatible=True)
                if rc != rc0:
                    ctx.finding("nop-changes-decoder-outcome-with-compatible", payload, "%r -> %r" % (rc0, rc)[:600])

            # forced placements
            idxpos, after = [], []
            for p, t in enumerate(toks):
                c = classify(t) if t != "." else None
                if c and c[0] in ("branch", "ring"):
                    after.append(p + 1)
                    for d in range(c[2]):
                        idxpos.append(p + 1 + d)
            idxpos = [p for p in idxpos if p <= len(toks)]
            if idxpos:
                variant(idxpos, "every-index-position")
                ctx.count("nop_in_index_position", len(idxpos))
                variant(idxpos + idxpos, "two-per-index-position")
            if after:
                variant(after, "after-every-branch-ring")
                ctx.count("nop_after_branch_or_ring", len(after))
            edges = [0, len(toks)] + [p for p, t in enumerate(toks) if t == "."] + [p + 1 for p, t in enumerate(toks) if t == "."]
            variant(edges, "fragment-edges")
            ctx.count("nop_at_fragment_edge", len(edges))
            for k in range(3):
                ps = []
                for p in range(len(toks) + 1):
                    while rng.random() < 0.3:
                        ps.append(p)
                variant(ps, "random")
            if len(toks) <= 12:
                for p in range(len(toks) + 1):
                    variant([p], "single@%d" % p)
                    ctx.count("exhaustive_single_insertions")
            if i % 10 == 3:
                # very long runs of padding (wide fixed-width fields, left padding)
                p = rng.randrange(len(toks) + 1)
                variant([p] * rng.choice([300, 1023, 1024, 1025, 2048, 5000]), "long-run@%d" % p)
                variant([0] * rng.choice([1000, 1024, 4096]), "left-padding")
                ctx.count("long_nop_runs", 2)
            # padding through the encoding utilities (their domain: single dots strictly between symbols)
            if ".." in base or base.startswith(".") or base.endswith("."):
                continue
            # the vocabulary the way pipelines build it: numbered in any order, '[nop]' often added last with label 0
            syms = sorted(set(t for t in toks) | {"."})
            rng.shuffle(syms)
            if rng.random() < 0.5:
                stoi = {s: i + 1 for i, s in enumerate(syms)}
                stoi["[nop]"] = 0
            else:
                syms.insert(rng.randrange(len(syms) + 1), "[nop]")
                stoi = {s: i for i, s in enumerate(syms)}
            items = [(i, s) for s, i in stoi.items()]
            if rng.random() < 0.5:
                rng.shuffle(items)
            itos = dict(items)
            pad = len(toks) + rng.choice([0, 1, 5, 20, len(stoi) + 3, 3 * len(stoi)])
            enc_type = rng.choice(["label", "label", "one_hot"])
            e = call_guard(lambda: sf.selfies_to_encoding(base, stoi, pad_to_len=pad, enc_type=enc_type))
            if e[0] == "ok":
                back = call_guard(lambda: sf.encoding_to_selfies(e[1], itos, enc_type))
                ctx.count("padding_roundtrips")
                if back[0] != "ok" or outcome(sf, back[1]) != r0:
                    ctx.finding("padded-string-decodes-differently", {"selfies": base, "padded": repr(back)[:300], "table": table}, "padding round trip")
            else:
                ctx.finding("padding-raises", {"selfies": base, "table": table}, repr(e)[:300])

    table = None
    g = None
    workload(500 if quick else 25000, "")
    # branches nested far beyond (and well below) what the interpreter's recursion limit allows - known finding F5 is
    # C08's business; here only: with and without padding the outcome is the same, whatever it is
    sf.set_semantic_constraints("default")
    for units in ([300, 1500] if quick else [200, 300, 1200, 1500, 2500, 4000]):
        unit = rng.choice(["[S][#Branch1][P][=Branch1][P][Branch1][P]", "[S][Branch1][P]", "[C][=Branch2][P][P]", "[P][#Branch1][S]"])
        toks_d = tokens_with_dots(unit * units + "[C]")
        base = "".join(toks_d)
        r0 = outcome(sf, base)[:2]
        npad = rng.choice([150, 1000, 3000])
        variants_d = {"tail": base + "[nop]" * npad, "head": "[nop]" * npad + base,
                      "after-every-4th": "".join(t + ("[nop]" if k % 4 == 3 else "") for k, t in enumerate(toks_d)),
                      "encoding-utilities": None}
        for tag_d, y in variants_d.items():
            if y is None:
                continue
            r = outcome(sf, y)[:2]
            ctx.count("deep_nesting_variants")
            ctx.case(("deep", units, unit, tag_d), True)
            if r != r0:
                ctx.finding("nop-changes-decoder-outcome", {"selfies": "%s * %d + [C]" % (unit, units), "placement": "deep-" + tag_d,
                                                           "nop": npad, "table": "default"},
                            "unpadded: %r ; padded: %r" % (r0[:2] if r0[0] != "ok" else ("ok", r0[1][:60]), r[:2] if r[0] != "ok" else ("ok", r[1][:60])))
    if ctx.shard % 4 == 0:
        # soak: a long-lived process has translated a very large number of distinct symbols (tables with a size
        # limit, interning, eviction ...) - the padding symbol must still be invisible afterwards
        sf.set_semantic_constraints("default")
        for k in range(140000 if quick else 400000):
            call_guard(lambda: sf.decoder("[%dC][O]" % k), expected=(sf.DecoderError,))
        ctx.count("soak_distinct_symbols", 140000 if quick else 400000)
        workload(60 if quick else 2000, ".after_soak")
    n_nop_index = 0
    for k, v in MON.counts.items():
        ctx.count(k, v)


def replay(ctx, payload):
    sf = env.load_selfies()
    sf.set_semantic_constraints(payload["table"])
    a = outcome(sf, payload["selfies"])
    if "variant" in payload:
        b = outcome(sf, payload["variant"])
        if a != b:
            ctx.finding("nop-changes-decoder-outcome", payload, "%r -> %r" % (a, b))
