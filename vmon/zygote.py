"""Fresh-interpreter server: imports selfies, makes no call, and for every job
forks a child that sets the table, runs the probes and reports (about 2 ms per
child instead of ~100 ms for a cold interpreter)."""
import json
import os
import sys
import warnings


def jsonable(v):
    if isinstance(v, (str, int, float, bool, type(None))):
        return v
    if isinstance(v, (list, tuple)):
        return [jsonable(i) for i in v]
    if isinstance(v, (set, frozenset)):
        return sorted(jsonable(i) for i in v)
    if isinstance(v, dict):
        return {str(k): jsonable(x) for k, x in v.items()}
    d = getattr(v, "__dict__", None)
    if d is not None:
        return {"__type__": type(v).__name__, "fields": jsonable(dict(d))}
    return repr(v)


def run_probe(sf, p):
    kind, x, flags = p
    try:
        if kind == "d":
            return ["ok", jsonable(sf.decoder(x, **flags))]
        if kind == "e":
            return ["ok", jsonable(sf.encoder(x, **flags))]
        if kind == "alphabet":
            return ["ok", sorted(sf.get_semantic_robust_alphabet())]
        if kind == "table":
            return ["ok", jsonable(sf.get_semantic_constraints())]
        return ["bad-probe", kind]
    except (sf.DecoderError, sf.EncoderError) as e:
        return ["err", type(e).__name__]
    except Exception as e:
        return ["esc", type(e).__name__]


def main():
    warnings.simplefilter("ignore")
    from vmon import env
    sf = env.load_selfies()
    out = sys.stdout
    for line in sys.stdin:
        line = line.strip()
        if not line:
            continue
        job = json.loads(line)
        # isolate: one fresh child per probe (no probe sees what an earlier probe left behind); otherwise one child per job
        groups = [[p] for p in job["probes"]] if job.get("isolate") else [job["probes"]]
        results, failed = [], None
        for probes in groups:
            r, w = os.pipe()
            pid = os.fork()
            if pid == 0:
                try:
                    os.close(r)
                    if job.get("table") is not None:
                        sf.set_semantic_constraints(job["table"])
                    res = [run_probe(sf, p) for p in probes]
                    data = json.dumps(res).encode()
                except BaseException as e:
                    data = json.dumps({"zygote_error": repr(e)}).encode()
                with os.fdopen(w, "wb") as fh:
                    fh.write(data)
                os._exit(0)
            os.close(w)
            with os.fdopen(r, "rb") as fh:
                data = fh.read()
            os.waitpid(pid, 0)
            part = json.loads(data.decode())
            if isinstance(part, dict):
                failed = part
                break
            results.extend(part)
        out.write(json.dumps(failed if failed is not None else results) + "\n")
        out.flush()


if __name__ == "__main__":
    main()
