"""C05 - aromatic SMILES are kekulized correctly, or rejected, independent of
atom order.  Four oracles (DESIGN.md section 5, C05)."""
import collections
import itertools

from vmon import env, hooks
from vmon.oracles import read_decoder_output
from vmon.aromgen import (STANDARD, ANCHORED, EXOTIC, ALL_KINDS, standard_system, substituted_system,
                          cage_system, CAGE_NAMES, pi_set, link_systems, single_ring_bonds, poly_aryl, union, benzenoid_system)
from vmon.molgen import random_tree_mol
from vmon.hooks import MON, call_guard
from vmon.matching import exact_pm, judge_matching, is_bipartite
from vmon.molgen import spell
from vmon.oracles import compare_roundtrip
from vmon.smiles_reader import read_smiles, SmilesSyntaxError

ID = "C05"
LEVEL = "exploration"
F3 = "F3-matching-nonbipartite"
F4 = "F4-two-neighbour-carbanion"
RULE = ("(1) every call of the matching routine, in every workload and fed directly with all graphs on <= 6 nodes (sorted and "
        "shuffled adjacency) and random fused-ring graphs of 8-40 nodes, is judged by an exact matcher; (2) fused/bridged/cage "
        "systems (ring sizes 3-8, chords, fullerene C60/C20 and other cubic cages) of standard kinds with generator-known "
        "pi-demand set P: accept iff P has a perfect matching, output has exactly one double bond on a former aromatic bond at "
        "every atom of P and none elsewhere, sigma skeleton/H/charge unchanged, 4-8 atom orders agree; (3) 1-2 anchored "
        "charged/radical kinds substituted: correctness if accepted; (4) exotic kinds: structural invariants and order "
        "independence only. distinct = distinct spelling; non-trivial = system with >= 2 rings or a hetero/charged atom")
ASSUMPTIONS = [
    "pi-demand of the standard and anchored atom kinds follows the kind table in vmon/aromgen.py (first-principles electron "
    "count, cross-checked against RDKit during development only; RDKit is not a run-time oracle here)",
    "completeness (accept whenever a Kekule structure exists) is claimed only for c, n, o, s, p, [nH], substituted n, [n+] and "
    "c with an exocyclic double bond; for exotic kinds no pi-demand is claimed at all",
    "atom order is preserved by the round trip (property C03), which lets output atoms be matched to input atoms by position",
]


def shards(tier):
    return 16


def timeout(tier):
    return 1800 if tier == "quick" else 14400


def floors(tier):
    return {"M4.calls": 3000, "direct.calls": 20000, "standard.spellings": 1500, "standard.accepted": 300,
            "standard.rejected_ok": 100, "anchored.spellings": 800, "exotic.spellings": 500, "cage.spellings": 20,
            "M4.nonbipartite": 100, "M4.bipartite": 1000, "direct.bipartite": 2000, "direct.matchable": 3000, "set:kinds": 30, "order_groups": 500, "linked.groups": 300, "polyaryl.groups": 500, "multifragment.groups": 500, "M4.calls_with_several_searches": 200}


def ceilings(tier):
    # F3 (no blossom step) is rare: on the unchanged tree about 0.04 % of the matching calls on non-bipartite graphs
    # show a blossom symptom (DESIGN.md section 6: 3 of 20 000 graphs, 2 of 12 000 spellings)
    return {F3: ("M4.nonbipartite", 0.004)}


def _f4_atoms(mi):
    """aromatic group-14 anions with no H and exactly two aromatic neighbours (written-order indices)"""
    adj = mi.adjacency()
    out = set()
    for a in mi.atoms:
        # (aromatic = takes part in aromatic bonds; the atom may be written in upper case with ':' bonds)
        if a.element in ("C", "Si") and a.charge == -1 and a.bracket and not a.hcount:
            na = sum(1 for b in adj[a.idx] if mi.bonds[(min(a.idx, b), max(a.idx, b))] == 1.5)
            if na == 2:
                out.add(a.idx)
    return out


F3_SYMPTOMS = ("false_none", "invalid_matching")   # what a blossom-free augmenting-path search can produce


def _m4_anomaly(log):
    """-> (any anomaly, F3-type anomaly (blossom symptom on a non-bipartite graph), any other anomaly)"""
    bad = [r for r in log if r["verdict"] != "ok"]
    f3 = [r for r in bad if (not r["bipartite"]) and r["verdict"] in F3_SYMPTOMS]
    return bool(bad), bool(f3), len(bad) > len(f3)


class Arom(object):
    def __init__(self, ctx):
        self.ctx = ctx
        self.sf = env.varied(env.load_selfies(), ctx)
        self.exotic_env = collections.defaultdict(set)

    def group(self, m, kind_of, arom_edges, cls, nspell, src):
        """All spellings of one molecule: per-spelling oracle + order independence."""
        ctx, sf, rng = self.ctx, self.sf, self.ctx.rng
        P, unknown = pi_set(kind_of)
        adj = {v: [] for v in range(len(m.atoms))}
        for a, b in arom_edges:
            adj[a].append(b)
            adj[b].append(a)
        exists = None
        if not unknown:
            exists = exact_pm(P, {v: [w for w in adj[v] if w in P] for v in P})
        outcomes = []
        any_nonbip_anomaly = False
        for v, k in enumerate(kind_of):
            if k:
                ctx.see("kinds", k)
        for k in range(nspell):
            try:
                uc = rng.random() < 0.1
                s, order, _, _ = spell(m, rng, variants=rng.random() < 0.5, mix_labels=rng.random() < 0.2,
                                       spanning=rng.choice(["dfs", "dfs", "dfs", "random"]), upper_colon=uc)
                if uc:
                    ctx.count("spellings_upper_case_with_colon_bonds")
            except ValueError:
                break
            payload = {"smiles": s, "class": cls, "kinds": sorted(set(k_ for k_ in kind_of if k_)), "src": src}
            del MON.match_log[:]
            r = call_guard(lambda: sf.encoder(s, strict=False), expected=(sf.EncoderError,))
            log = list(MON.match_log)
            for mon, msg in MON.drain():
                ctx.finding("monitor-" + mon, payload, msg)
            anomaly, nonbip, bip = _m4_anomaly(log)
            any_nonbip_anomaly = any_nonbip_anomaly or nonbip
            if bip:
                ctx.finding("matching-wrong-not-blossom-related", dict(payload, graphs=[r_ for r_ in log if r_["verdict"] != "ok"][:2]),
                            "M4: find_perfect_matching answered wrongly on a bipartite graph, or with a symptom a missing blossom step cannot produce")
            ctx.count(cls + ".spellings")
            nontrivial = len(arom_edges) > len(kind_of) or any(k_ not in ("c", None) for k_ in kind_of)
            ctx.case(s, nontrivial, sample={"smiles": s, "class": cls, "accepted": r[0] == "ok"})
            try:
                mi = read_smiles(s)
            except SmilesSyntaxError as e:
                ctx.finding("generator-bug", payload, str(e))
                continue
            inv = {g: kk for kk, g in enumerate(order)}
            f4_atoms = _f4_atoms(mi)
            # F4's mechanism: such an atom is treated as a lone-pair donor.  The listed finding therefore predicts
            # exactly what selfies does: it behaves as the oracle would with these atoms taken out of P.
            f4 = False
            f4_state = {}
            if f4_atoms and not unknown:
                Pf = {g for g in P if inv[g] not in f4_atoms}
                f4_state["exists"] = exact_pm(Pf, {v: [w for w in adj[v] if w in Pf] for v in Pf})
                f4_state["P"] = {inv[g] for g in Pf}

            def blame(key, detail, extra=None):
                """F3 / F4 are the only listed mechanisms; everything else is a VIOLATION."""
                p = dict(payload, **(extra or {}))
                if nonbip:
                    ctx.finding(F3, p, "%s (M4: matching routine wrong on a non-bipartite graph in this call)" % detail)
                elif f4_state and cls != "standard" and f4_state.get("consistent"):
                    ctx.finding(F4, p, "%s (exactly what treating the two-neighbour aromatic carbanion(s) as lone-pair donors predicts)" % detail)
                else:
                    ctx.finding(key, p, detail)

            if r[0] == "esc":
                blame("escape:%s@%s" % (r[1], r[2]), r[3])
                outcomes.append(("esc", None))
                continue
            accepted = r[0] == "ok"
            if f4_state:
                # consistent with the F4 mechanism so far iff acceptance is what the reduced P predicts
                f4_state["consistent"] = (accepted == f4_state["exists"])
            if exists is not None and accepted != exists:
                if accepted:
                    blame("accepts-without-kekule-structure", "encoder accepts although G[P] has no perfect matching")
                elif cls == "standard":
                    blame("rejects-kekulizable-standard-system", "encoder rejects although G[P] has a perfect matching")
                else:
                    ctx.count(cls + ".rejects_kekulizable_nonstandard")   # completeness not claimed
            if not accepted:
                ctx.count(cls + ".rejected_ok" if exists is False else cls + ".rejected")
                outcomes.append((False, None))
                continue
            ctx.count(cls + ".accepted")
            x = r[1]
            d = call_guard(lambda: sf.decoder(x), expected=(sf.DecoderError,))
            if d[0] != "ok":
                ctx.finding("decoder-rejects-encoder-output", dict(payload, selfies=x), repr(d)[:200])
                continue
            mo, st_out = read_decoder_output(d[1], lambda m_: compare_roundtrip(mi, m_, check_stereo=False))
            if st_out == "budget":
                ctx.count("segmentation_budget")      # >= 100 ring labels (F1 text), search cut short: no verdict
                continue
            if mo is None:
                ctx.finding("output-unreadable", dict(payload, output=d[1]), "the decoder's output cannot be read")
                continue
            diff = compare_roundtrip(mi, mo, check_stereo=False)
            if diff is not None:
                blame("skeleton-" + diff[0], diff[1], {"output": d[1]})
                outcomes.append((True, None))
                continue
            dbl = collections.Counter()
            for kx, o in mi.bonds.items():
                if o == 1.5 and mo.bonds[kx] == 2:
                    dbl[kx[0]] += 1
                    dbl[kx[1]] += 1
            Pw = {inv[g] for g in P}
            Uw = {inv[g] for g in unknown}
            err = None
            in_system = set(x for kx, o in mi.bonds.items() if o == 1.5 for x in kx)
            for a in mi.atoms:
                if a.idx not in in_system:
                    continue
                if a.idx in Uw:
                    if dbl[a.idx] > 1:
                        err = "atom %d %s has %d double bonds on former aromatic bonds" % (a.idx, a.text, dbl[a.idx])
                    genv = order[a.idx]
                    key = (kind_of[genv], len(adj[genv]), bool(a.bracket), a.hcount)   # the spelling class is part of the environment
                    self.exotic_env[key].add(dbl[a.idx])
                else:
                    want = 1 if a.idx in Pw else 0
                    if dbl[a.idx] != want:
                        err = "atom %d %s has %d double bond(s) inside the aromatic system, needs %d" % (a.idx, a.text, dbl[a.idx], want)
                if err:
                    break
            if err:
                if f4_state and f4_state.get("consistent"):
                    f4_state["consistent"] = all(dbl[a.idx] == (1 if a.idx in f4_state["P"] else 0)
                                                 for a in mi.atoms if a.idx in in_system)
                blame("wrong-pi-assignment", err, {"output": d[1]})
            outcomes.append((True, frozenset(order[i] for i in range(len(mi.atoms)) if dbl[i])))
        # order independence over the spellings of this molecule
        if len(outcomes) >= 2:
            ctx.count("order_groups")
            acc = set(o[0] for o in outcomes)
            sets = set(o[1] for o in outcomes if o[0] is True and o[1] is not None)
            if len(acc) > 1 or len(sets) > 1:
                p = {"smiles": s, "class": cls, "kinds": sorted(set(k_ for k_ in kind_of if k_)), "outcomes": [str(o[0]) for o in outcomes]}
                what = "acceptance" if len(acc) > 1 else "set of double-bonded atoms"
                if any_nonbip_anomaly:
                    ctx.finding(F3, p, "%s differs between atom orders (M4: matching wrong on a non-bipartite graph)" % what)
                else:
                    ctx.finding("order-dependent-" + ("acceptance" if len(acc) > 1 else "kekulization"), p,
                                "%s differs between atom orders of one molecule" % what)


def direct_matching(ctx, sf):
    """Oracle 1, fed directly: every graph on <= 6 nodes + random fused graphs."""
    fpm = env.mods()["mol_graph"].find_perfect_matching
    rng = ctx.rng
    quick = ctx.tier == "quick"

    def feed(adj, src):
        g = [list(l) for l in adj]
        r = call_guard(lambda: fpm([list(l) for l in g]))
        ctx.count("direct.calls")
        if r[0] == "ok":
            verdict, exists = judge_matching(g, r[1])
        else:
            verdict, exists = "raised:" + r[1], None
        bip = is_bipartite(len(g), g)
        ctx.count("direct.bipartite" if bip else "direct.nonbipartite")
        if exists:
            ctx.count("direct.matchable")
        if verdict == "ok":
            return
        payload = {"graph": g, "result": r[1] if r[0] == "ok" else repr(r), "src": src}
        if not bip and verdict in F3_SYMPTOMS:
            ctx.finding(F3, payload, "find_perfect_matching: %s on a non-bipartite graph" % verdict)
        else:
            ctx.finding("matching-wrong-not-blossom-related", payload, "find_perfect_matching: %s (bipartite=%s)" % (verdict, bip))

    i = 0
    for n in (2, 4, 6) if quick else (2, 3, 4, 5, 6, 7):
        pairs = list(itertools.combinations(range(n), 2))
        for mask in range(1 << len(pairs)):
            i += 1
            if i % ctx.nshards != ctx.shard:
                continue
            adj = [[] for _ in range(n)]
            for bi, (a, b) in enumerate(pairs):
                if mask >> bi & 1:
                    adj[a].append(b)
                    adj[b].append(a)
            feed(adj, "all<=%d" % n)
            for l in adj:
                rng.shuffle(l)
            feed(adj, "all<=%d shuffled" % n)
            ctx.case(("graph", n, mask), n >= 4)
    for it in range(1500 if quick else 40000):
        n = rng.choice([8, 10, 12, 14, 16, 18, 20, 26, 32, 40])
        perm = list(range(n))
        rng.shuffle(perm)
        edges = set()
        k = 0
        while k < n:
            L = rng.choice([3, 4, 5, 5, 6, 6, 7, 8])
            cyc = [perm[(k + i_) % n] for i_ in range(L)]
            for i_ in range(L):
                a, b = cyc[i_], cyc[(i_ + 1) % L]
                if a != b:
                    edges.add((min(a, b), max(a, b)))
            k += L - rng.choice([1, 2])
        for _ in range(rng.randint(0, 3)):
            a, b = rng.sample(range(n), 2)
            edges.add((min(a, b), max(a, b)))
        adj = [[] for _ in range(n)]
        for a, b in sorted(edges):
            adj[a].append(b)
            adj[b].append(a)
        for l in adj:
            rng.shuffle(l)
        feed(adj, "fused-random")
        ctx.case(("graph", tuple(map(tuple, adj))), True)
    for it in range(1500 if quick else 40000):
        # bipartite by construction: two sides, edges only across, degree <= 3 (hexagonal-lattice like)
        n = rng.choice([10, 12, 16, 20, 26, 32, 40])
        left, right = list(range(n // 2)), list(range(n // 2, n))
        rng.shuffle(right)
        adj = [[] for _ in range(n)]
        for i, a in enumerate(left):
            for b in (right[i], right[(i + 1) % len(right)], rng.choice(right)):
                if b not in adj[a] and len(adj[a]) < 3 and len(adj[b]) < 3 and rng.random() < 0.85:
                    adj[a].append(b)
                    adj[b].append(a)
        for l in adj:
            rng.shuffle(l)
        feed(adj, "bipartite-random")
        ctx.case(("graph", tuple(map(tuple, adj))), True)


def run(ctx):
    sf = env.varied(env.load_selfies(), ctx)
    hooks.attach_m1()
    hooks.attach_m1_encoder()
    hooks.attach_m4()
    hooks.attach_m4b()
    sf.set_semantic_constraints({"?": 12})
    rng = ctx.rng
    quick = ctx.tier == "quick"
    A = Arom(ctx)
    for i in range(80 if quick else 2500):
        m, kind_of, ae = poly_aryl(rng)
        A.group(m, kind_of, ae, "standard", rng.choice([4, 6, 8]), "G6-polyaryl")
        ctx.count("polyaryl.groups")
    for i in range(60 if quick else 2000):
        # benzenoids: hexagons of the honeycomb lattice, cata- and peri-condensed (pyrene, perylene, coronene types and
        # non-Kekulean ones such as phenalene), a few pyridine-type n
        m, kind_of, ae = benzenoid_system(rng, hetero=rng.choice([0, 0, 0.1]))
        A.group(m, kind_of, ae, "standard", rng.choice([4, 6]), "G6-benzenoid")
        ctx.count("benzenoid.groups")
    direct_matching(ctx, sf)
    for i in range(150 if quick else 4000):
        sizes = rng.choice([(5, 6, 6, 6, 7), (5, 6, 6, 6, 7), (3, 4, 5, 6, 7, 8), (5, 5, 6, 7), (6,), (6,), (4, 6, 8)])
        m, kind_of, ae = standard_system(rng, sizes=sizes, chords=0 if len(sizes) <= 3 else None,
                                         nrings=rng.choice([3, 4, 6, 8, 10]) if len(sizes) <= 3 else None)
        A.group(m, kind_of, ae, "standard", rng.choice([4, 4, 6, 8]), "G6-standard")
    for i in range(60 if quick else 2000):
        # several fragments: aromatic systems as 2nd, 3rd ... component, next to saturated fragments
        parts = [standard_system(rng, nrings=rng.choice([1, 1, 2])) for _ in range(rng.choice([2, 2, 3, 5]))]
        extra = [random_tree_mol(rng, rng.choice([1, 3, 6]), p_ring=0.2, p_chiral=0, p_stereo=0) for _ in range(rng.choice([0, 1, 2]))]
        m, kind_of, ae = union(parts, extra)
        A.group(m, kind_of, ae, "standard", 4, "G6-multifragment")
        ctx.count("multifragment.groups")
    for i in range(6 if quick else 150):
        # large inputs: several hundred pi-atoms in one call (many small rings, connected or not) with one to three
        # odd-ring systems somewhere among them - first, in the middle, last
        if rng.random() < 0.5:
            parts = [standard_system(rng, nrings=rng.choice([1, 1, 2]), sizes=(6,), chords=0) for _ in range(rng.randint(40, 70))]
        else:
            parts = [benzenoid_system(rng, rng.choice([1, 1, 2, 3]), hetero=0.1) for _ in range(rng.randint(40, 70))]     # all Kekulean
        for _ in range(rng.choice([1, 2, 3])):
            odd = standard_system(rng, nrings=rng.choice([3, 4, 6]), sizes=rng.choice([(5, 6, 6, 7), (5, 6, 6), (5, 7)]), chords=0)
            parts.insert(rng.choice([0, len(parts), rng.randrange(len(parts) + 1)]), odd)
        if rng.random() < 0.5:
            m, kind_of, ae = union(parts)
        else:
            m, kind_of, ae = link_systems(rng, parts)
        A.group(m, kind_of, ae, "standard", 3, "G6-large")
        ctx.count("large.groups")
        ctx.count("large.pi_atoms>256", 1 if len(pi_set(kind_of)[0]) > 256 else 0)
    for i in range(1 if quick else 12):
        # scale: more than a thousand pi-atoms in one call
        parts = [benzenoid_system(rng, rng.choice([1, 1, 2]), hetero=0.1) for _ in range(rng.randint(190, 280))]      # each has a Kekule structure
        parts.insert(rng.randrange(len(parts)), standard_system(rng, nrings=rng.choice([2, 4]), sizes=(5, 6, 6, 7), chords=0))
        m, kind_of, ae = union(parts)
        A.group(m, kind_of, ae, "standard", 2, "G6-huge")
        ctx.count("huge.groups")
    for i in range(60 if quick else 2000):
        # biaryl / fluorene-type: ring systems joined by explicit single bonds between aromatic atoms, also as ring
        # closures with '-' on one digit only; larger even rings so that the single bond COULD be double in a matching
        parts = [standard_system(rng, nrings=rng.choice([1, 1, 2]), sizes=rng.choice([(5, 6, 6, 7), (6,), (6, 8), (4, 6, 8)]),
                                 chords=0) for _ in range(rng.choice([2, 2, 3]))]
        m, kind_of, ae = link_systems(rng, parts)
        if rng.random() < 0.5:
            ae = single_ring_bonds(rng, m, kind_of, ae, k=rng.choice([1, 1, 2]))
        A.group(m, kind_of, ae, "standard", 4, "G6-linked")
        ctx.count("linked.groups")
    for i in range(100 if quick else 3000):
        m, kind_of, ae, chosen = substituted_system(rng, ANCHORED)
        A.group(m, kind_of, ae, "anchored", 3, "G6-anchored")
    for i in range(60 if quick else 2000):
        m, kind_of, ae, chosen = substituted_system(rng, EXOTIC)
        A.group(m, kind_of, ae, "exotic", 4, "G6-exotic")
    names = CAGE_NAMES if not quick else [CAGE_NAMES[(ctx.shard + j) % len(CAGE_NAMES)] for j in (0, 5)]
    for name in names:
        m, kind_of, ae = cage_system(rng, name, hetero=rng.choice([0, 0, 0.1]))
        A.group(m, kind_of, ae, "cage", 4 if quick else 8, "cage:" + name)
        ctx.see("cages", name)
    for env_key, outs in A.exotic_env.items():
        ctx.see("exotic_envs", env_key)
        if len(outs) > 1:
            ctx.finding("exotic-kind-not-local", {"env": list(env_key), "outcomes": sorted(outs)},
                        "the same atom environment got a double bond in one molecule and none in another")
    for k, v in MON.counts.items():
        ctx.count(k, v)
    for u in MON.unreached:
        ctx.see("unreached_monitors", u)


def replay(ctx, payload):
    sf = env.load_selfies()
    hooks.attach_m4()
    sf.set_semantic_constraints({"?": 12})
    if "graph" in payload:
        fpm = env.mods()["mol_graph"].find_perfect_matching
        g = payload["graph"]
        r = call_guard(lambda: fpm([list(l) for l in g]))
        verdict = judge_matching(g, r[1])[0] if r[0] == "ok" else "raised"
        if verdict != "ok":
            ctx.finding(F3 if (not is_bipartite(len(g), g) and verdict in F3_SYMPTOMS) else "matching-wrong-not-blossom-related", payload, verdict)
        return
    s = payload["smiles"]
    del MON.match_log[:]
    r = call_guard(lambda: sf.encoder(s, strict=False), expected=(sf.EncoderError,))
    ctx.notes["replay"] = {"encoder": repr(r)[:300], "matching_calls": MON.match_log[:3]}
    ctx.finding("replay-observation", payload, repr(r)[:300])
