"""Shared SMILES -> SELFIES -> SMILES pipeline for C03 / C04 / C10."""
from vmon.hooks import MON, call_guard
from vmon.oracles import compare_roundtrip
from vmon.smiles_reader import (read_smiles, read_segmented, has_long_percent_run,
                                SmilesSyntaxError, SegmentationBudget)


def _needs_four_index_symbols(x):
    i = x.find("Ring")
    while i >= 0:
        if x[i + 4:i + 5] in "456789":
            return True
        i = x.find("Ring", i + 4)
    i = x.find("Branch")
    while i >= 0:
        if x[i + 6:i + 7] in "456789":
            return True
        i = x.find("Branch", i + 6)
    return False


def roundtrip(ctx, sf, s, table, check_stereo, src, payload_extra=None, _again=False):
    """Returns (status, min, mout, selfies).  status in:
    'ok', 'gen_bug', 'enc_reject', 'violation'.
    Besides the plain strict call, a fraction of the inputs is also encoded with the other flag combinations (the
    SELFIES string must not depend on them) and translated a second time (a repeated call must repeat its result)."""
    payload = {"smiles": s if len(s) < 3000 else s[:3000] + "...", "table": table, "src": src}
    if len(s) >= 3000:
        payload["smiles_full"] = s
    if payload_extra:
        payload.update(payload_extra)
    try:
        min_ = read_smiles(s)
    except SmilesSyntaxError as e:
        ctx.count("GEN_BUG")
        ctx.finding("generator-bug", payload, "independent reader rejects the generated input: %s" % e)
        return "gen_bug", None, None, None
    r = call_guard(lambda: sf.encoder(s), expected=(sf.EncoderError,))
    for mon, msg in MON.drain():
        ctx.finding("monitor-" + mon, payload, msg)
    if r[0] == "err":
        ctx.count("encoder_rejects")
        return "enc_reject", min_, None, None
    if r[0] == "esc":
        ctx.finding("escape:%s@%s" % (r[1], r[2]), payload, r[3])
        return "violation", min_, None, None
    x = r[1]
    if not _again and ctx.rng.random() < 0.25:
        for fl in ({"strict": False}, {"attribute": True}, {"strict": False, "attribute": True}):
            r2 = call_guard(lambda: sf.encoder(s, **fl), expected=(sf.EncoderError,))
            got = r2[1][0] if (r2[0] == "ok" and fl.get("attribute")) else (r2[1] if r2[0] == "ok" else None)
            ctx.count("encoder_flag_variants")
            if got != x:
                ctx.finding("encoder-flags-change-the-output", dict(payload, flags=fl, selfies=x[:1000]),
                            "encoder(s) = %r but encoder(s, %r) = %r" % (x[:200], fl, repr(r2)[:200]))
    d = call_guard(lambda: sf.decoder(x), expected=(sf.DecoderError,))
    for mon, msg in MON.drain():
        ctx.finding("monitor-" + mon, dict(payload, selfies=x[:2000]), msg)
    if d[0] != "ok":
        if d[0] == "err" and _needs_four_index_symbols(x):
            # ring span / branch length >= 16^3 symbols: outside the documented three-index-symbol limit (and outside
            # the quantifier of C03 / C10); the encoder then writes [Ring4] / [Branch4], which the decoder refuses
            ctx.count("beyond_three_index_symbols")
            return "enc_reject", min_, None, None
        ctx.finding("decoder-rejects-encoder-output", dict(payload, selfies=x[:2000]), repr(d)[:300])
        return "violation", min_, None, x
    out = d[1]
    try:
        mout = read_smiles(out)
        if has_long_percent_run(out) and compare_roundtrip(min_, mout, check_stereo=check_stereo) is not None:
            # the text carries ring labels >= 100 (F1) and its standard reading ('%100' = label 10, then label 0) happens
            # to be well formed: that reading is not what the writer meant - judge through the segmentation search
            raise SmilesSyntaxError("standard reading of a text with ring labels >= 100", 0)
    except SmilesSyntaxError as e:
        mout = None
        if has_long_percent_run(out):
            # >= 100 ring labels: the writer's '%100' text (known finding F1 of
            # C01/C02); the molecule is still judged through the segmentation search
            try:
                for m2 in read_segmented(out, max_parses=200):
                    if compare_roundtrip(min_, m2, check_stereo=check_stereo) is None:
                        ctx.count("f1_outputs_preserved")
                        return "ok", min_, m2, x
                    if mout is None:
                        mout = m2
            except SegmentationBudget:
                ctx.count("segmentation_budget")
                return "ok", min_, None, x
        if mout is None:
            ctx.finding("output-unreadable", dict(payload, selfies=x[:2000], output=out[:2000]), str(e))
            return "violation", min_, None, x
    diff = compare_roundtrip(min_, mout, check_stereo=check_stereo)
    if diff is not None:
        ctx.finding("roundtrip-" + diff[0] + ("-on-repeated-call" if _again else ""),
                    dict(payload, selfies=x[:2000], output=out[:2000]), diff[1])
        return "violation", min_, mout, x
    if not _again and ctx.rng.random() < 0.15:
        # the very same input once more: same SELFIES, same molecule
        ctx.count("repeated_translations")
        st2, _, _, x2 = roundtrip(ctx, sf, s, table, check_stereo, src, payload_extra, _again=True)
        if st2 == "ok" and x2 != x:
            ctx.finding("repeated-call-differs", dict(payload, first=x[:1000], second=(x2 or "")[:1000]),
                        "encoder returned two different strings for the same input")
    return "ok", min_, mout, x
