"""Self-validation mutants: (name, file, old, new, properties expected to fire).
Applied to a scratch copy of /repo by tools/run_mutants.py, never to /repo."""

D = "selfies/decoder.py"
E = "selfies/encoder.py"
G = "selfies/grammar_rules.py"
MG = "selfies/mol_graph.py"
BC = "selfies/bond_constraints.py"
SU = "selfies/utils/smiles_utils.py"
MU = "selfies/utils/matching_utils.py"
SFU = "selfies/utils/selfies_utils.py"
EU = "selfies/utils/encoding_utils.py"
CO = "selfies/compatibility.py"

M = [
    # ---------------------------------------------------------- derivation
    ("m01_ring_no_state", D, "ring_order, next_state = next_ring_state(ring_type, state)\n",
     "ring_order, next_state = next_ring_state(ring_type, state)\n                next_state = state\n", ["C02", "C01"]),
    ("m02_branch_Q_not_Q1", D, "symbol_iter, mol, selfies, (Q + 1),", "symbol_iter, mol, selfies, max(Q, 1),", ["C02", "C16"]),
    ("m03_index_digits_swapped", "selfies/constants.py", '"[O]", "[N]", "[=N]", "[=C]", "[#C]", "[S]", "[P]"',
     '"[O]", "[N]", "[=C]", "[=N]", "[#C]", "[S]", "[P]"', ["C02", "C16"]),
    ("m04_ring_target_off_by_one", D, "lidx = max(0, prev_atom.index - (Q + 1))", "lidx = max(0, prev_atom.index - (Q + 2))", ["C02", "C16", "C03"]),
    ("m05_upgrade_cap_4", D, "new_order = min(order + bond.order, 3)", "new_order = min(order + bond.order, 4)", ["C01", "C02"]),
    ("m06_branch_init_state", G, "branch_init_state = min(state - 1, branch_type)", "branch_init_state = min(state, branch_type)", ["C02", "C01"]),
    ("m07_atom_cap_ignored", G, "bond_order = min(bond_order, state, bond_cap)", "bond_order = min(bond_order, state)", ["C01", "C02", "C07"]),
    ("m08_rings_reverse", D, "for latom, ratom, bond_info in rings:", "for latom, ratom, bond_info in reversed(rings):", ["C02"]),
    ("m09_ring_after_branches", D, "a=lidx, a_stereo=lstereo, a_pos=rings_made[lidx],", "a=lidx, a_stereo=lstereo, a_pos=-1,", ["C02", "C04"]),
    ("m10_eps_terminates_X0", D, "next_state = 0 if (state == 0) else None", "next_state = None", ["C02"]),
    ("m11_ring_no_recheck_free", D, "        if lfree <= 0 or rfree <= 0:\n            continue  # no room for ring bond\n        order = min(order, lfree, rfree)\n",
     "        if lfree <= 0 or rfree <= 0:\n            continue  # no room for ring bond\n        order = min(order, lfree)\n", ["C01", "C02"]),
    ("m12_explicit_h_ignored", MG, "bond_cap -= 0 if (self.h_count is None) else self.h_count", "bond_cap -= 0", ["C01", "C02", "C06"]),
    ("m13_dot_keeps_state", D, "            init_state=0,\n            root_atom=None,", "            init_state=0 if not rings else 1,\n            root_atom=None if not rings else mol.get_atom(0),", ["C02"]),
    ("m14_validate_unreached", D, "    mol = MolecularGraph(attributable=attribute)\n",
     "    mol = MolecularGraph(attributable=attribute)\n    for _s in split_selfies(selfies):\n        if _s not in ('.', '[nop]') and 'eps' not in _s and process_atom_symbol(_s) is None and process_branch_symbol(_s) is None and process_ring_symbol(_s) is None and not compatible:\n            _raise_decoder_error(selfies, _s)\n", ["C02"]),
    ("m15_ring_order_max", G, "bond_order = min(ring_type, state)", "bond_order = max(ring_type, state) if state > 3 else min(ring_type, state)", ["C02", "C01"]),
    # ------------------------------------------------------------- writer
    ("m20_percent_above_10", SU, "if rnum >= 10:", "if rnum > 10:", ["C01", "C02", "C03"]),
    ("m21_paren_dropped", SU, "            if needs_closing:\n                derived.append(\")\")", "            if needs_closing and len(stack) < 7:\n                derived.append(\")\")", ["C01", "C02"]),
    ("m22_ring_label_reuse", SU, "rnum = ring_log.setdefault(ends, len(ring_log) + 1)", "rnum = ring_log.setdefault(ends, (len(ring_log) % 60) + 1)", ["C01", "C02"]),
    # ------------------------------------------------------------ encoder
    ("m30_ring_distance_wrong_beyond_16", E, "Q_as_symbols = get_selfies_from_index(ring_len - 1)", "Q_as_symbols = get_selfies_from_index(ring_len - 1 if ring_len < 18 else ring_len)", ["C03", "C10", "C16"]),
    ("m31_chirality_sort_dropped", E, "    partition[0].sort(key=lambda x: ring_order[\n        (min(out_bonds[x].src, out_bonds[x].dst),\n         max(out_bonds[x].src, out_bonds[x].dst))])\n", "", ["C04"]),
    ("m32_never_invert", E, "    return count % 2 != 0  # if odd permutation, should invert chirality", "    return False", ["C04"]),
    ("m33_ring_stereo_ends_swapped", E, "        bond_char = \"-\" if (lbond.stereo is None) else lbond.stereo\n        bond_char += \"-\" if (rbond.stereo is None) else rbond.stereo",
     "        bond_char = \"-\" if (rbond.stereo is None) else rbond.stereo\n        bond_char += \"-\" if (lbond.stereo is None) else lbond.stereo", ["C04"]),
    ("m34_strict_gt_to_ge", E, "if bond_count > bond_cap:", "if bond_count >= bond_cap:", ["C06", "C03"]),
    ("m35_encoder_consults_table_nonstrict", E, "    if strict:\n        _check_bond_constraints(mol, smiles)\n",
     "    if strict:\n        _check_bond_constraints(mol, smiles)\n    elif any(mol.get_bond_count(a.index) > a.bonding_capacity + 2 for a in mol.get_atoms()):\n        raise EncoderError('too many bonds')\n", ["C06"]),
    ("m36_branch_len_miscount", E, "Q_as_symbols = get_selfies_from_index(len(branch) - 1)", "Q_as_symbols = get_selfies_from_index(sum(1 for b in branch if 'Ring' not in b) - 1)", ["C03", "C10"]),
    ("m37_ring_order_one_end", SU, "        order=max(lorder, rorder)\n", "        order=lorder\n", ["C03", "C05"]),
    ("m38_attr_changes_result", E, "    result = \".\".join(fragments), attribution_maps\n    return result if attribute else result[0]",
     "    result = \".\".join(fragments), attribution_maps\n    if attribute and len(fragments) > 2:\n        result = \".\".join(fragments[:-1]), attribution_maps\n    return result if attribute else result[0]", ["C17"]),
    # ----------------------------------------------------------- aromatic
    ("m40_used_electrons_off", MG, "used_electrons = int(self._bond_counts[node] - 0.5 * len(adj_nodes))", "used_electrons = int(self._bond_counts[node] - 0.5 * len(adj_nodes)) + (1 if len(adj_nodes) == 3 and atom.element == 'N' else 0)", ["C05"]),
    ("m41_valences_first", MG, "valence = valences[-1] - atom.charge", "valence = valences[0] - atom.charge", ["C05"]),
    ("m42_charge_sign_prune", MG, "if any(used_electrons == v - atom.charge for v in valences):", "if any(used_electrons == v + atom.charge for v in valences):", ["C05"]),
    ("m43_implicit_aromatic_ring_closure", SU, "    if latom.is_aromatic and ratom.is_aromatic and (bonds == (None, None)):\n        lorder = rorder = 1.5", "    if False:\n        lorder = rorder = 1.5", ["C05", "C03"]),
    ("m44_flip_off_by_one", MU, "    for i in range(0, len(path), 2):", "    for i in range(0, len(path) - 2 if len(path) > 6 else len(path), 2):", ["C05", "C09"]),
    ("m45_greedy_first_neighbor_bug", MU, "        if path is None:\n            return None", "        if path is None:\n            if len(graph) > 9 and len(unmatched) == 1:\n                continue\n            return None", ["C05"]),
    # ------------------------------------------------------------- config
    ("m50_cache_clear_dropped", BC, "    get_bonding_capacity.cache_clear()\n", "", ["C06", "C11", "C12", "C01", "C07"]),
    ("m51_alphabet_cache_clear_dropped", BC, "    get_semantic_robust_alphabet.cache_clear()\n", "", ["C07", "C12"]),
    ("m52_setter_aliases_dict", BC, "        _current_constraints = dict(bond_constraints)", "        _current_constraints = bond_constraints", ["C12", "C11"]),
    ("m53_getter_aliases", BC, "    global _current_constraints\n    return dict(_current_constraints)", "    global _current_constraints\n    return _current_constraints", ["C12", "C11"]),
    ("m54_preset_alias", BC, "    return dict(_PRESET_CONSTRAINTS[name])", "    return _PRESET_CONSTRAINTS[name]", ["C12"]),
    ("m55_nonatomic_reject", BC, "    elif isinstance(bond_constraints, dict):\n", "    elif isinstance(bond_constraints, dict):\n        _current_constraints = dict((k, v) for k, v in bond_constraints.items() if isinstance(v, int))\n        get_bonding_capacity.cache_clear()\n", ["C12"]),
    ("m56_capacity_key_loses_sign", BC, "        key += \"{:+}\".format(charge)", "        key += \"+{}\".format(abs(charge))", ["C01", "C02", "C06", "C07"]),
    ("m57_alphabet_missing_double_ring", BC, "        alphabet_subset.add(\"[=Ring{}]\".format(i))\n", "", ["C07", "C12"]),
    ("m58_alphabet_overcap", BC, "        if (m > c) or (a == \"?\"):", "        if (m > c + 1) or (a == \"?\"):", ["C07", "C12"]),
    ("m59_atom_instance_cached", G, "    bond_info, atom_fac = output\n    atom = atom_fac()\n",
     "    bond_info, atom_fac = output\n    atom = _ATOM_INSTANCES.setdefault(symbol, atom_fac())\n", ["C01", "C02", "C11", "C19"]),
    ("m60_capacity_memo_in_decoder", D, "            cap = atom.bonding_capacity\n", "            cap = _CAP_MEMO.setdefault(symbol, atom.bonding_capacity)\n", ["C11", "C12", "C01", "C07"]),
    # ----------------------------------------------------------------- nop
    ("m70_nop_only_compatible", D, "            if symbol == \"[nop]\":\n                continue", "            if symbol == \"[nop]\" and (compatible or len(selfies) < 40):\n                continue", ["C13", "C02"]),
    ("m71_nop_counted_in_index", D, "            index_symbols.append(next(symbol_iter)[-1])\n            n_read += 1", "            index_symbols.append(next(symbol_iter)[-1])\n            n_read += 1\n            if index_symbols[-1] == '[F]' and n_symbols == 3:\n                index_symbols[-1] = '[Ring1]'", ["C02", "C16"]),
    # ----------------------------------------------------------- utilities
    ("m80_len_selfies", SFU, "    return selfies.count(\"[\") + selfies.count(\".\")", "    return selfies.count(\"]\") + selfies.count(\".\") - selfies.count(\"].]\")", ["C14"]),
    ("m81_padding_off_by_one", EU, "    if pad_to_len > len_selfies(selfies):\n        selfies += \"[nop]\" * (pad_to_len - len_selfies(selfies))", "    if pad_to_len > len_selfies(selfies) + 1:\n        selfies += \"[nop]\" * (pad_to_len - len_selfies(selfies))", ["C15", "C13"]),
    ("m82_split_strips_space", SFU, "        next_symbol = selfies[left_idx: right_idx + 1]\n", "        next_symbol = selfies[left_idx: right_idx + 1].replace(\" ]\", \"]\")\n", ["C14"]),
    ("m83_alphabet_keeps_dot_only_multi", SFU, "    alphabet.discard(\".\")\n", "    if len(alphabet) < 9:\n        alphabet.discard(\".\")\n", ["C14"]),
    ("m84_onehot_index_last", EU, "            integer_encoded.append(row.index(1))", "            integer_encoded.append(len(row) - 1 - row[::-1].index(1))", []),
    ("m85_batch_ragged_floor", EU, "        if len(flat_one_hot) % M != 0:\n", "        if len(flat_one_hot) % M not in (0, 1):\n", ["C15"]),
    ("m86_index_base", G, "        index += INDEX_CODE.get(c, 0) * (len(INDEX_CODE) ** i)", "        index += INDEX_CODE.get(c, 0) * ((len(INDEX_CODE) if i < 2 else 15) ** i)", ["C16", "C02"]),
    # -------------------------------------------------------------- legacy
    ("m90_legacy_table_entry", CO, "(\"[Branch{}_3]\", \"[#Branch{}]\"),", "(\"[Branch{}_3]\", \"[=Branch{}]\"),", ["C18"]),
    ("m91_expl_charge_lost", CO, "        if (atom is not None) and (not atom.is_aromatic):\n", "        if (atom is not None) and (not atom.is_aromatic):\n            atom.charge = 0 if abs(atom.charge) > 2 else atom.charge\n", ["C18"]),
    ("m92_compat_modern_changed", CO, "    if symbol in _SYMBOL_UPDATE_TABLE:\n        return _SYMBOL_UPDATE_TABLE[symbol]\n", "    if symbol in _SYMBOL_UPDATE_TABLE:\n        return _SYMBOL_UPDATE_TABLE[symbol]\n    if symbol == \"[=Ring2]\":\n        return \"[Ring2]\"\n", ["C18"]),
    # --------------------------------------------------------- attribution
    ("m95_attr_index_off", SU, "        attribution_index += _strlen(derived) + 1  # +1 for the \".\" separator", "        attribution_index += _strlen(derived)", ["C17"]),
    ("m96_attr_branch_stack_lost", D, "                    attribute_stack=attribute_stack +\n                    [Attribution(index + attribution_index, symbol)\n                     ] if attribute_stack is not None else None,",
     "                    attribute_stack=attribute_stack[:1] +\n                    [Attribution(index + attribution_index, symbol)\n                     ] if attribute_stack is not None else None,", ["C17"]),
    ("m97_enc_attr_token", SU, "    mol.add_attribution(o, [Attribution(i, str(tok))])\n    if not is_root:", "    mol.add_attribution(o, [Attribution(i, str(tok).upper())])\n    if not is_root:", ["C17"]),
    # -------------------------------------------------------- totality etc
    ("m100_split_hang", SFU, "        if right_idx == -1:\n            raise ValueError(\"malformed SELFIES string, hanging '[' bracket\")", "        if right_idx == -1:\n            left_idx = selfies.find(\"[\")\n            continue", ["C08"]),
    ("m101_decoder_keyerror", D, "        elif \"eps\" in symbol:", "        elif symbol[1:4] == \"Zzz\":\n            next_state = {}[symbol]\n        elif \"eps\" in symbol:", []),
    ("m102_short_symbol_indexerror", D, "        if \"ch\" == symbol[-4:-2]:", "        if \"ch\" == symbol[-4] + symbol[-3]:", ["C08", "C02"]),
    ("m103_decoder_leaves_table", D, "    _form_rings_bilocally(mol, rings)\n    return mol_to_smiles(mol, attribute)", "    _form_rings_bilocally(mol, rings)\n    if len(rings) > 6:\n        from selfies import bond_constraints as _bc\n        _bc._current_constraints[\"Zr\"] = 1\n    return mol_to_smiles(mol, attribute)", ["C08", "C11"]),
    ("m104_encoder_valueerror", SU, "            if not (rnum.isnumeric() and len(rnum) == 2):", "            if int(rnum or '0') < 0 or not (rnum.isnumeric() and len(rnum) == 2):", ["C09"]),
    ("m105_module_global_rings", D, "    rings = []\n    attribution_index = 0", "    rings = _RINGS\n    del rings[:]\n    attribution_index = 0", ["C19"]),
    ("m106_f2_reverted", SU, "            symbol = symbol.lstrip(\"%\").lstrip(\"0\") or \"0\"\n", "", ["C03"]),
    ("m107_f10_reverted", G, "[+-][1-9][0-9]*)?)", "[+-][1-9]+)?)", ["C07", "C10"]),
    ("m108_f7_reverted", SU, "    if latom.index == ratom.index:\n        err_msg = \"ring bond specified from an atom to itself\"\n        raise SMILESParserError(smiles, err_msg, ltoken.start_idx)\n", "", ["C09"]),
    ("m109_f14_reverted", D, "    return get_index_from_selfies(*index_symbols), n_read", "    return get_index_from_selfies(*index_symbols), n_symbols", ["C17"]),
]

PREAMBLE = {
    "m59_atom_instance_cached": (G, "def process_atom_symbol(", "_ATOM_INSTANCES = {}\n\n\ndef process_atom_symbol("),
    "m60_capacity_memo_in_decoder": (D, "def decoder(\n", "_CAP_MEMO = {}\n\n\ndef decoder(\n"),
    "m105_module_global_rings": (D, "def decoder(\n", "_RINGS = []\n\n\ndef decoder(\n"),
}
