"""G6: aromatic systems with an independently known pi-demand set P.

The generator builds fused / bridged / cage ring systems and assigns every
ring atom a *kind*.  For standard and anchored kinds the kind table says
whether the atom needs exactly one double bond inside the aromatic system
(True), must have none (False); exotic kinds carry None (no claim).
No selfies code and no RDKit is used here."""
import collections

from vmon.molgen import GMol, GAtom

# kind -> (element, hcount(None = organic subset), charge, needs_pi, substituent, ring degree allowed)
# substituent: None | "R" (single-bonded carbon) | "=X" (exocyclic double bond)
STANDARD = {
    "c":      ("C", None, 0, True, None, (2, 3)),
    "cR":     ("C", None, 0, True, "R", (2,)),
    "n":      ("N", None, 0, True, None, (2,)),      # pyridine type
    "n3":     ("N", None, 0, False, None, (3,)),     # bridgehead N (indolizine type): lone pair donor
    "o":      ("O", None, 0, False, None, (2,)),
    "s":      ("S", None, 0, False, None, (2,)),
    "p":      ("P", None, 0, True, None, (2,)),
    "[nH]":   ("N", 1, 0, False, None, (2,)),
    "nR":     ("N", None, 0, False, "R", (2,)),
    "[n+]R":  ("N", 0, 1, True, "R", (2,)),
    "[n+]3":  ("N", 0, 1, True, None, (3,)),
    "c=O":    ("C", None, 0, False, "=X", (2,)),
    # bracket spellings of the same atoms as n, o, s (no H, no charge): same kinds, same completeness claim
    "[n]":    ("N", 0, 0, True, None, (2,)),
    "[o]":    ("O", 0, 0, False, None, (2,)),
    "[s]":    ("S", 0, 0, False, None, (2,)),
}
# correctness-if-accepted and order independence only (completeness not claimed)
ANCHORED = {
    "[nH+]":  ("N", 1, 1, True, None, (2,)),
    "[o+]":   ("O", 0, 1, True, None, (2,)),
    "[s+]":   ("S", 0, 1, True, None, (2,)),
    "[se]":   ("Se", 0, 0, False, None, (2,)),
    "[cH-]":  ("C", 1, -1, False, None, (2,)),
    "[cH+]":  ("C", 1, 1, False, None, (2,)),
    "[c-]":   ("C", 0, -1, True, None, (2,)),       # F4 lives here
    "[c+]":   ("C", 0, 1, True, None, (2,)),
    "[c]":    ("C", 0, 0, True, None, (2, 3)),
    "[cH]":   ("C", 1, 0, True, None, (2,)),
    "[n-]":   ("N", 0, -1, False, None, (2,)),
    "[bH-]":  ("B", 1, -1, True, None, (2,)),
    # satisfied by substituents (sigma + exocyclic bonds use up the element's higher standard valence): no ring double bond
    "s=O":    ("S", None, 0, False, "=O", (2,)),       # thiophene-1-oxide type
    "se=O":   ("Se", None, 0, False, "=O", (2,)),
    "p=O,R":  ("P", None, 0, False, "=O,R", (2,)),     # phosphole-oxide type
    # N-oxide in the pentavalent spelling: sigma + exocyclic bonds give 4, the ring double bond makes 5
    "n=O":    ("N", None, 0, True, "=O", (2,)),
}
EXOTIC = {
    "[si]":   ("Si", 0, 0, None, None, (2, 3)),
    "[siH]":  ("Si", 1, 0, None, None, (2,)),
    "[al]":   ("Al", 0, 0, None, None, (2,)),
    "[as]":   ("As", 0, 0, None, None, (2,)),
    "[te]":   ("Te", 0, 0, None, None, (2,)),
    "[p+]":   ("P", 0, 1, None, None, (2, 3)),
    "[pH+]":  ("P", 1, 1, None, None, (2,)),
    "[b-]":   ("B", 0, -1, None, None, (2,)),
    "[b]":    ("B", 0, 0, None, None, (2,)),
    "[bH]":   ("B", 1, 0, None, None, (2,)),
    "[n+]2":  ("N", 0, 1, None, None, (2,)),
    "[se+]":  ("Se", 0, 1, None, None, (2,)),
    "[si-]":  ("Si", 0, -1, None, None, (2,)),
    "[p]":    ("P", 0, 0, None, None, (2,)),
    "[pH]":   ("P", 1, 0, None, None, (2,)),
    "sO2":    ("S", None, 0, None, "=X=X", (2,)),
}
ALL_KINDS = {}
ALL_KINDS.update(STANDARD)
ALL_KINDS.update(ANCHORED)
ALL_KINDS.update(EXOTIC)

STD2 = ["c"] * 10 + ["cR", "cR", "n", "n", "o", "s", "[nH]", "nR", "[n+]R", "c=O", "p", "[n]", "[n]", "[o]", "[s]"]
STD3 = ["c"] * 8 + ["n3", "[n+]3"]


def ring_system(rng, nrings, sizes=(5, 6, 6, 6, 7), chords=0, spiro=False):
    """(n, edges, deg) of a fused ring system with maximum degree 3."""
    k = rng.choice(sizes)
    n = k
    edges = set((min(i, (i + 1) % k), max(i, (i + 1) % k)) for i in range(k))
    deg = [2] * k
    for _ in range(nrings - 1):
        cand = [e for e in edges if deg[e[0]] == 2 and deg[e[1]] == 2]
        if not cand:
            break
        a, b = rng.choice(sorted(cand))
        k = rng.choice(sizes)
        path = list(range(n, n + k - 2))
        n += k - 2
        deg += [2] * (k - 2)
        chain = [a] + path + [b]
        for x, y in zip(chain, chain[1:]):
            edges.add((min(x, y), max(x, y)))
        deg[a] += 1
        deg[b] += 1
    for _ in range(chords):
        cand = [v for v in range(n) if deg[v] == 2]
        if len(cand) < 2:
            break
        a, b = rng.sample(cand, 2)
        if (min(a, b), max(a, b)) in edges:
            continue
        edges.add((min(a, b), max(a, b)))
        deg[a] += 1
        deg[b] += 1
    return n, sorted(edges), deg


_CAGES = {}


def cage(name):
    """Cubic cage graphs (n, edges): fullerene C60 (truncated icosahedron),
    C20 (dodecahedron), and a few other cubic graphs incl. non-bipartite."""
    if name in _CAGES:
        return _CAGES[name]
    import networkx as nx
    if name == "C60":
        ico = nx.icosahedral_graph()
        ok, emb = nx.check_planarity(ico)
        assert ok
        idx = {}
        for u in ico.nodes:
            for v in ico.neighbors(u):
                idx[(u, v)] = len(idx)
        edges = set()
        for u in ico.nodes:
            nb = list(emb.neighbors_cw_order(u))
            for i, v in enumerate(nb):
                w = nb[(i + 1) % len(nb)]
                a, b = idx[(u, v)], idx[(u, w)]
                edges.add((min(a, b), max(a, b)))
                a, b = idx[(u, v)], idx[(v, u)]
                edges.add((min(a, b), max(a, b)))
        res = (60, sorted(edges))
    else:
        g = {"C20": nx.dodecahedral_graph, "cube": nx.cubical_graph, "petersen": nx.petersen_graph,
             "heawood": nx.heawood_graph, "desargues": nx.desargues_graph,
             "trunc_tetra": nx.truncated_tetrahedron_graph, "trunc_cube": nx.truncated_cube_graph,
             "frucht": nx.frucht_graph, "tutte": nx.tutte_graph, "K4": lambda: nx.complete_graph(4),
             "prism3": lambda: nx.circular_ladder_graph(3), "prism5": lambda: nx.circular_ladder_graph(5),
             "moebius": nx.moebius_kantor_graph}[name]()
        g = nx.convert_node_labels_to_integers(g)
        res = (g.number_of_nodes(), sorted((min(a, b), max(a, b)) for a, b in g.edges))
    _CAGES[name] = res
    return res


CAGE_NAMES = ["C60", "C20", "cube", "petersen", "heawood", "desargues", "trunc_tetra", "trunc_cube",
              "frucht", "tutte", "K4", "prism3", "prism5", "moebius"]


ISOTOPES = {"C": (13, 14, 12, 11), "N": (15, 13), "O": (18, 17), "S": (34, 33), "P": (32,), "Se": (77,), "B": (10, 11)}


def build(rng, n, edges, deg, kinds_for, extra_subst=0.25, p_isotope=0.04):
    """Assemble a GMol from ring graph + kind assignment.
    Returns (mol, kind_of: list, arom_edges:set)."""
    m = GMol()
    kind_of = []
    for v in range(n):
        kind = kinds_for(v, deg[v])
        el, h, ch, needs, sub, _ = ALL_KINDS[kind]
        m.add_atom(GAtom(el, hcount=h, charge=ch, aromatic=True, kind=kind))
        kind_of.append(kind)
    for a, b in edges:
        m.add_bond(a, b, 1.5)
    for v in range(n):
        sub = ALL_KINDS[kind_of[v]][4]
        if sub == "R":
            w = m.add_atom(GAtom("C"))
            m.add_bond(v, w, 1)
        elif sub == "=X":
            w = m.add_atom(GAtom(rng.choice(["O", "S", "N"])))
            m.add_bond(v, w, 2)
        elif sub in ("=O", "=O,R"):
            w = m.add_atom(GAtom("O"))
            m.add_bond(v, w, 2)
            if sub == "=O,R":
                w = m.add_atom(GAtom("C"))
                m.add_bond(v, w, 1)
        elif sub == "=X=X":
            for _ in range(2):
                w = m.add_atom(GAtom("O"))
                m.add_bond(v, w, 2)
        elif kind_of[v] == "c" and deg[v] == 2 and rng.random() < extra_subst:
            w = m.add_atom(GAtom(rng.choice(["C", "F", "Cl", "O", "N", "Br"])))
            m.add_bond(v, w, 1)
            kind_of[v] = "cR"
    # isotope labels: the same atom kind written as a bracket atom, so the H count of organic-subset atoms has to be
    # spelled out ([13cH] for an unsubstituted c, [13c] for a substituted or fusion c, [15n], [18o], ...)
    for v in range(n):
        a = m.atoms[v]
        if a.element in ISOTOPES and rng.random() < p_isotope:
            if a.hcount is None:
                a.hcount = 1 if (kind_of[v] == "c" and deg[v] == 2) else 0
            a.isotope = rng.choice(ISOTOPES[a.element])
    return m, kind_of, set(edges)



def polyhex(rng, nhex):
    """(n, edges, deg) of a random benzenoid: `nhex` hexagons of the honeycomb lattice, edge-connected - cata- AND
    peri-condensed systems (pyrene, perylene, coronene, benzo[a]pyrene ... and their larger relatives)."""
    # hexagon (q, r) in axial coordinates; its six corners as lattice points of a doubled triangular grid
    def corners(q, r):
        x, y = 3 * q, 2 * r + q          # centre; corners in a skewed integer grid
        return [(x + 1, y + 1), (x + 2, y), (x + 1, y - 1), (x - 1, y - 1), (x - 2, y), (x - 1, y + 1)]
    cells = [(0, 0)]
    chosen = {(0, 0)}
    while len(chosen) < nhex:
        q, r = rng.choice(cells)
        dq, dr = rng.choice([(1, 0), (-1, 0), (0, 1), (0, -1), (1, -1), (-1, 1)])
        c = (q + dq, r + dr)
        if c not in chosen:
            chosen.add(c)
            cells.append(c)
    idx = {}
    edges = set()
    for (q, r) in sorted(chosen):
        cs = corners(q, r)
        for k in range(6):
            a, b = cs[k], cs[(k + 1) % 6]
            for p in (a, b):
                if p not in idx:
                    idx[p] = len(idx)
            i, j = idx[a], idx[b]
            edges.add((min(i, j), max(i, j)))
    n = len(idx)
    deg = [0] * n
    for a, b in edges:
        deg[a] += 1
        deg[b] += 1
    return n, edges, deg


def benzenoid_system(rng, nhex=None, hetero=0.0):
    """A benzenoid (see polyhex) of plain aromatic carbons, a few of them replaced by pyridine-type n (degree 2 only)."""
    n, edges, deg = polyhex(rng, nhex or rng.choice([3, 4, 5, 6, 8, 10]))

    def kinds_for(v, d):
        if d == 2 and rng.random() < hetero:
            return "n"
        return "c"
    return build(rng, n, edges, deg, kinds_for, extra_subst=0.05)

def union(parts, extra=None):
    """Disjoint union of (mol, kind_of, arom_edges) triples (plus optional saturated GMols): a multi-fragment molecule."""
    m = GMol()
    kind_of, ae = [], set()
    for (pm, pk, pe) in parts:
        off = len(m.atoms)
        for i, a in enumerate(pm.atoms):
            m.add_atom(GAtom(a.element, isotope=a.isotope, hcount=a.hcount, charge=a.charge, aromatic=a.aromatic, kind=a.kind))
            kind_of.append(pk[i] if i < len(pk) else None)
        for (x, y), o in pm.bonds.items():
            m.add_bond(x + off, y + off, o)
        for (x, y) in pe:
            ae.add((x + off, y + off))
    for g in (extra or []):
        off = len(m.atoms)
        for a in g.atoms:
            m.add_atom(GAtom(a.element, isotope=a.isotope, hcount=a.hcount, charge=a.charge))
            kind_of.append(None)
        for (x, y), o in g.bonds.items():
            m.add_bond(x + off, y + off, o)
    return m, kind_of, ae


def poly_aryl(rng, n_aryl=None, core_sizes=(5, 6, 6), aryl_sizes=(6,)):
    """A core ring carrying several aryl rings, joined by bonds written implicitly between two aromatic atoms.  Such a
    bond is an aromatic (order 1.5) edge for the encoder and for the independent reader alike, so the pi-graph is
    one connected graph with bridges (tetraphenylthiophene, hexaphenylbenzene, rubrene type) - the shape on which a
    greedy matching leaves several atoms unmatched and more than one augmenting search runs in one kekulization."""
    k = rng.choice(core_sizes)
    n = k
    edges = set((min(i, (i + 1) % k), max(i, (i + 1) % k)) for i in range(k))
    deg = [2] * k
    attach = [v for v in range(k)]
    rng.shuffle(attach)
    n_aryl = n_aryl or rng.choice([2, 3, 4, 5, 6])
    hetero_core = (k == 5) or rng.random() < 0.3     # a five-ring core always carries a donor atom: the pi-graph stays bipartite
    spots = attach[: min(n_aryl, k - (1 if hetero_core else 0))]
    for v in spots:
        r = rng.choice(aryl_sizes)
        ring = list(range(n, n + r))
        n += r
        deg += [2] * r
        for i in range(r):
            a, b = ring[i], ring[(i + 1) % r]
            edges.add((min(a, b), max(a, b)))
        edges.add((v, ring[0]))
        deg[v] += 1
        deg[ring[0]] += 1
        if rng.random() < 0.3:      # a second generation (terphenyl-like arms)
            r2 = rng.choice(aryl_sizes)
            ring2 = list(range(n, n + r2))
            n += r2
            deg += [2] * r2
            for i in range(r2):
                a, b = ring2[i], ring2[(i + 1) % r2]
                edges.add((min(a, b), max(a, b)))
            w = ring[len(ring) // 2]
            edges.add((w, ring2[0]))
            deg[w] += 1
            deg[ring2[0]] += 1
    free_core = [v for v in range(k) if deg[v] == 2]

    def kinds_for(v, d):
        if d == 3:
            return "c"
        if hetero_core and free_core and v == free_core[0]:
            return rng.choice(["s", "o", "[nH]", "nR"])
        return "c" if rng.random() < 0.9 else rng.choice(["n", "cR"])
    return build(rng, n, sorted(edges), deg, kinds_for, extra_subst=0.05)


def single_ring_bonds(rng, m, kind_of, ae, k=1):
    """Turn up to k aromatic ring bonds between plain aromatic carbons into explicit single bonds (written '-'):
    the two atoms still need a pi bond, but not along this bond.  Returns the new aromatic edge set."""
    ae = set(ae)
    deg = collections.Counter()
    for a, b in ae:
        deg[a] += 1
        deg[b] += 1
    cands = [e for e in sorted(ae) if all(kind_of[v] in ("c", "cR") and deg[v] >= 2 and m.atoms[v].isotope is None for v in e)]
    rng.shuffle(cands)
    for (a, b) in cands[:k]:
        if deg[a] < 2 or deg[b] < 2:
            continue
        ae.discard((a, b))
        m.bonds[(a, b)] = 1
        deg[a] -= 1
        deg[b] -= 1
    return ae


def link_systems(rng, parts, bridge=True):
    """Join ring systems by single bonds between plain aromatic carbons (biaryl type); with `bridge` a second
    connection through a saturated carbon closes a new ring through the single bond (fluorene type).
    parts: list of (mol, kind_of, arom_edges).  Returns (mol, kind_of, arom_edges) of the union; the single bonds
    are ordinary order-1 bonds between aromatic atoms (they are NOT aromatic edges)."""
    m = GMol()
    kind_of, ae, offs = [], set(), []
    for (pm, pk, pe) in parts:
        off = len(m.atoms)
        offs.append(off)
        for i, a in enumerate(pm.atoms):
            m.add_atom(GAtom(a.element, isotope=a.isotope, hcount=a.hcount, charge=a.charge, aromatic=a.aromatic,
                             kind=a.kind))
            kind_of.append(pk[i] if i < len(pk) else None)
        for (x, y), o in pm.bonds.items():
            m.add_bond(x + off, y + off, o)
        for (x, y) in pe:
            ae.add((x + off, y + off))
    val = m.valences()

    def free_c(pi):
        off = offs[pi]
        n = len(parts[pi][1])
        return [off + i for i in range(n) if kind_of[off + i] == "c" and m.atoms[off + i].hcount is None
                and abs(val[off + i] - 3.0) < 1e-9 and m.atoms[off + i].isotope is None]
    for pi in range(len(parts) - 1):
        a_c, b_c = free_c(pi), free_c(pi + 1)
        if not a_c or not b_c:
            continue
        a, b = rng.choice(a_c), rng.choice(b_c)
        m.add_bond(a, b, 1)
        kind_of[a] = kind_of[b] = "cR"
        val[a] += 1
        val[b] += 1
        if bridge and rng.random() < 0.5:
            a2 = [x for x in free_c(pi) if x != a]
            b2 = [x for x in free_c(pi + 1) if x != b]
            if a2 and b2:
                x, y = rng.choice(a2), rng.choice(b2)
                w = m.add_atom(GAtom(rng.choice(["C", "O", "S", "N"])))
                kind_of.append(None)
                m.add_bond(x, w, 1)
                m.add_bond(w, y, 1)
                kind_of[x] = kind_of[y] = "cR"
                val[x] += 1
                val[y] += 1
                val.append(2)
    return m, kind_of, ae


def pi_set(kind_of):
    """(P, unknown): atoms that need a pi bond / atoms with no claim."""
    P, unknown = set(), set()
    for v, k in enumerate(kind_of):
        if k is None:
            continue        # a non-aromatic atom of a linked system
        needs = ALL_KINDS[k][3]
        if needs is None:
            unknown.add(v)
        elif needs:
            P.add(v)
    return P, unknown


def standard_system(rng, nrings=None, chords=None, sizes=(5, 6, 6, 6, 7)):
    nrings = nrings or rng.choice([1, 1, 2, 2, 3, 4, 6])
    chords = rng.choice([0, 0, 0, 1, 2]) if chords is None else chords
    n, edges, deg = ring_system(rng, nrings, sizes=sizes, chords=chords)

    def kinds_for(v, d):
        pool = STD2 if d == 2 else STD3
        return rng.choice(pool)
    return build(rng, n, edges, deg, kinds_for)


def substituted_system(rng, table, k=None):
    """A standard system with 1-2 plain 'c' atoms replaced by kinds of `table`."""
    n, edges, deg = ring_system(rng, rng.choice([1, 1, 2, 2, 3]), chords=0)
    k = k or rng.choice([1, 1, 2])
    chosen = {}
    cands = list(range(n))
    rng.shuffle(cands)
    for v in cands:
        if len(chosen) >= k:
            break
        ks = [name for name, spec in table.items() if deg[v] in spec[5]]
        if ks:
            chosen[v] = rng.choice(ks)

    def kinds_for(v, d):
        if v in chosen:
            return chosen[v]
        return "c" if rng.random() < 0.8 else rng.choice(STD2 if d == 2 else STD3)
    m, kind_of, ae = build(rng, n, edges, deg, kinds_for, extra_subst=0.1)
    return m, kind_of, ae, sorted(set(chosen.values()))


def cage_system(rng, name, hetero=0.0):
    n, edges = cage(name)
    deg = [0] * n
    for a, b in edges:
        deg[a] += 1
        deg[b] += 1

    def kinds_for(v, d):
        if d == 3:
            return "[n+]3" if rng.random() < hetero else "c"
        return rng.choice(STD2)
    return build(rng, n, edges, deg, kinds_for, extra_subst=0)
