"""Own 30-line moderniser for pre-v2 SELFIES symbols (C18 oracle; also used
to measure nesting depth of legacy strings in C08).  Independent of
selfies.compatibility: own bracket-atom parser (vmon.smiles_reader)."""
from vmon.smiles_reader import _read_bracket, SmilesSyntaxError

ORGANIC = ("B", "C", "N", "O", "S", "P", "F", "Cl", "Br", "I")
TABLE = {}
for _L in "123":
    for _old, _new in (("[Branch%s_1]", "[Branch%s]"), ("[Branch%s_2]", "[=Branch%s]"), ("[Branch%s_3]", "[#Branch%s]"),
                       ("[Expl=Ring%s]", "[=Ring%s]"), ("[Expl#Ring%s]", "[#Ring%s]"),
                       ("[Expl/Ring%s]", "[//Ring%s]"), ("[Expl\\Ring%s]", "[\\\\Ring%s]")):
        TABLE[_old % _L] = _new % _L


def standard_spelling(a):
    s = ""
    if a.isotope is not None:
        s += str(a.isotope)
    s += a.element
    if a.chirality:
        s += a.chirality
    if a.hcount:
        s += "H%d" % a.hcount
    elif a.isotope is None and a.chirality is None and a.charge == 0 and a.element in ORGANIC:
        s += "H0"
    if a.charge:
        s += "%+d" % a.charge
    return s


def is_legacy(sym):
    return sym in TABLE or sym.endswith("expl]")


def modernize(sym):
    if sym in TABLE:
        return TABLE[sym]
    if sym.endswith("expl]"):
        body = sym[1:-5]
        b = ""
        if body[:1] in ("=", "#", "/", "\\"):
            b, body = body[0], body[1:]
        try:
            a, end = _read_bracket("[" + body + "]", 0)
        except (SmilesSyntaxError, ValueError):
            return sym
        if a.aromatic or end != len(body) + 2:
            return sym
        return "[%s%s]" % (b, standard_spelling(a))
    return sym
