"""Client side of the zygote (fresh interpreters for C11 / C19)."""
import json
import subprocess

from vmon import env


class Zygote(object):
    def __init__(self, hashseed=0):
        self.hashseed = hashseed
        self.p = subprocess.Popen([env.PYTHON, "-m", "vmon.zygote"], env=env.child_env(hashseed=hashseed),
                                  stdin=subprocess.PIPE, stdout=subprocess.PIPE, text=True, cwd=env.ROOT)
        self.jobs = 0

    def run(self, table, probes, isolate=False):
        self.p.stdin.write(json.dumps({"table": table, "probes": probes, "isolate": isolate}) + "\n")
        self.p.stdin.flush()
        line = self.p.stdout.readline()
        if not line:
            raise RuntimeError("zygote died (rc=%r)" % self.p.poll())
        self.jobs += 1
        res = json.loads(line)
        if isinstance(res, dict):
            raise RuntimeError("zygote child failed: %r" % res)
        return res

    def close(self):
        try:
            self.p.stdin.close()
            self.p.wait(timeout=10)
        except Exception:
            self.p.kill()
