"""C09 - encoder is total: returns or raises EncoderError, always terminates."""
from vmon import env, hooks, scopes, tablegen
from vmon.hooks import MON, call_guard
from vmon.hostile import hostile_smiles
from vmon.molgen import random_tree_mol, spell
from vmon.aromgen import standard_system, union, link_systems, benzenoid_system
from vmon.totality import Totality, AbortWorkload
from vmon.props.c08 import atheris_campaign

ID = "C09"
LEVEL = "exploration"
RULE = ("hostile str inputs: random characters over the SMILES alphabet plus Unicode digits/letters, control characters, lone "
        "surrogates and unsupported features (*, $, ->, @TH1); character-level mutations of dataset and seed SMILES; digit runs up "
        "to 6000 digits in isotope/charge/H/class/ring-label fields; parenthesis nesting 50-2500; long inputs to 6000 characters; "
        "self-referencing, mismatched and re-used ring closures; aromatic bond symbols on atoms that cannot be aromatic; random valid "
        "and aromatic molecules; every input under all four (strict, attribute) combinations. M9 taps every exception at the API "
        "boundary, M7 bounds logical steps, M4 judges every matching call (for the F3 mechanism key), M5 compares the global table. "
        "thorough adds an atheris campaign. distinct = distinct (input, flags); non-trivial = input of >= 3 characters")
ASSUMPTIONS = ["'always terminates' is decided as 'within a generous polynomial number of interpreter line events'",
               "RecursionError with parenthesis depth >= 300 is the known finding F9; an exception after a matching call that M4 "
               "judged wrong on a non-bipartite graph is the known finding F3"]


def shards(tier):
    return 16


def timeout(tier):
    return 1800 if tier == "quick" else 14400


def floors(tier):
    return {"calls": 20000, "returned": 3000, "raised_expected": 5000, "class.chars": 500, "class.mutated": 1000,
            "class.digits": 100, "class.deep": 50, "class.long": 30, "class.rings": 100, "class.valid": 300,
            "class.aromatic": 100, "class.aromatic-any-element": 300, "flags.strict": 5000, "flags.attribute": 5000, "steps": 1000000, "M4.calls": 300, "atheris.executions": 100000}


def run(ctx):
    sf = env.varied(env.load_selfies(), ctx)
    hooks.attach_m4()
    hooks.attach_m4b()
    rng = ctx.rng
    quick = ctx.tier == "quick"
    T = Totality(ctx, "encoder")
    seeds = scopes.dataset_smiles(100)[ctx.shard::ctx.nshards][:100]
    n = 1500 if quick else 40000
    tables = ["default", "octet_rule", "hypervalent", {"?": 0}, {"?": 12, "C": 1}]
    try:
        for i in range(n):
            if i % 200 == 0:
                tablegen.set_table_hostile(sf, rng.choice(tables), rng, ctx)
            if i % 12 == 10:
                m = random_tree_mol(rng, rng.choice([3, 8, 20]), p_ring=0.2, ncomp=rng.choice([1, 2]))
                cls, x = "valid", spell(m, rng)[0]
            elif i % 12 == 11 and i % 120 == 11:
                # several hundred aromatic atoms in one call, odd-ring systems among many six-rings, connected or not
                parts = [standard_system(rng, nrings=rng.choice([1, 1, 2]), sizes=(6,), chords=0) for _ in range(rng.randint(30, 70))]
                for _ in range(rng.choice([1, 2, 3])):
                    parts.insert(rng.choice([0, len(parts), rng.randrange(len(parts) + 1)]),
                                 standard_system(rng, nrings=rng.choice([3, 4, 6]), sizes=rng.choice([(5, 6, 6, 7), (5, 6, 6), (5, 7), (3, 4, 5, 6, 7)]), chords=0))
                m, kind_of, ae = union(parts) if rng.random() < 0.5 else link_systems(rng, parts)
                cls, x = "aromatic-large", spell(m, rng)[0]
            elif i % 12 == 11 and i % 600 == 35:
                # scale: the same polycyclic fragment hundreds of times in one input (hundreds of matching searches in one call)
                # (the search counter M4b steers the choice: a fragment whose greedy matching is not perfect)
                frag = None
                for _ in range(60):
                    m, kind_of, ae = benzenoid_system(rng, rng.choice([4, 5, 6, 8]))
                    cand = spell(m, rng, variants=False)[0]
                    b4 = MON.counts.get("M4b.augmenting_path_searches", 0)
                    ok1 = call_guard(lambda: sf.encoder(cand, strict=False), expected=(sf.EncoderError,))
                    frag = frag or cand
                    if ok1[0] == "ok" and MON.counts.get("M4b.augmenting_path_searches", 0) > b4:
                        frag = cand
                        ctx.count("replicated_fragment_needs_search")
                        break
                cls, x = "aromatic-replicated", ".".join([frag] * rng.choice([260, 300, 420]))
            elif i % 12 == 11:
                m, kind_of, ae = standard_system(rng, sizes=(3, 4, 5, 6, 7))
                cls, x = "aromatic", spell(m, rng)[0]
            else:
                cls, x = hostile_smiles(rng, seeds)
            if len(x) > 40000:
                x = x[:40000]
            ctx.count("class." + cls)
            for strict in (True, False):
                for attr in (False, True):
                    if cls in ("deep", "long", "digits") and (not strict or attr) and rng.random() < 0.5:
                        continue
                    if strict:
                        ctx.count("flags.strict")
                    if attr:
                        ctx.count("flags.attribute")
                    T.call(x, (strict, attr), cls)
                    ctx.case((x, strict, attr), len(x) >= 3,
                             sample={"input": x[:120], "class": cls, "strict": strict, "attribute": attr}
                             if cls in ("mutated", "chars", "rings") and len(x) > 6 else None)
    except AbortWorkload as e:
        ctx.count("workload_aborted_after_step_bound_violations")
    atheris_campaign(ctx, "encoder", runs=20000 if quick else 300000, T=T)
    T.close()
    for k, v in MON.counts.items():
        ctx.count(k, v)


def replay(ctx, payload):
    hooks.attach_m4()
    T = Totality(ctx, "encoder")
    x = payload.get("input_full", payload["input"])
    f = payload["flags"]
    T.call(x, (f["strict"], f["attribute"]), "replay")
    T.close()
