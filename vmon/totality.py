"""Shared machinery for C08 / C09: API-boundary exception tap (M9), logical
step bound (M7), global-table probe (M5), known-mechanism classification."""
from vmon import env, hooks
from vmon.hooks import MON, StepCounter, StepLimit, call_guard, cache_probe

import signal
import time

STEP_CAP = 30_000_000


def step_bound(n):
    return min(20_000 + 5_000 * n + 200 * n * n, STEP_CAP)


def cpu_bound(n):
    """CPU seconds (ITIMER_VIRTUAL: user CPU time of this single-threaded worker, independent of machine load) one call
    may use: a minute plus 4 us for every line event the step bound allows.  Line events cannot see time spent INSIDE
    one statement (a regular expression that backtracks exponentially, a quadratic string operation in C); this bound
    can.  On the unchanged tree the largest value observed is recorded in the evidence (max_cpu_s_per_call)."""
    return 60.0 + 4e-6 * step_bound(n)


class CpuLimit(StepLimit):
    """Raised from the SIGVTALRM handler when one call has used more CPU time than cpu_bound allows."""


def _on_vtalrm(signum, frame):
    raise CpuLimit()


def paren_depth(s):
    d = best = 0
    in_br = False
    for ch in s:
        if ch == "[":
            in_br = True
        elif ch == "]":
            in_br = False
        elif not in_br:
            if ch == "(":
                d += 1
                if d > best:
                    best = d
            elif ch == ")":
                d = max(0, d - 1)
    return best


def branch_symbol_count(s):
    return s.count("Branch")


class AbortWorkload(Exception):
    """Enough step-bound violations were seen; the rest of the workload would only burn time."""


class Totality(object):
    def __init__(self, ctx, which):
        self.ctx = ctx
        self.which = which
        self.sf = env.varied(env.load_selfies(), ctx)
        self.steps = StepCounter()
        self.steps.start()
        self.steplimit_hits = 0
        self.cpu_timer = False
        try:
            signal.signal(signal.SIGVTALRM, _on_vtalrm)
            self.cpu_timer = True
        except (ValueError, AttributeError, OSError):
            ctx.see("unreached_monitors", "cpu timer")
        self.expected = (self.sf.DecoderError,) if which == "decoder" else (self.sf.EncoderError,)

    def close(self):
        self.steps.stop()

    def call(self, x, flags, cls):
        """One monitored API call; records findings; returns the outcome."""
        ctx, sf = self.ctx, self.sf
        if self.which == "decoder":
            fn = lambda: sf.decoder(x, compatible=flags[0], attribute=flags[1])
            fl = {"compatible": flags[0], "attribute": flags[1]}
        else:
            fn = lambda: sf.encoder(x, strict=flags[0], attribute=flags[1])
            fl = {"strict": flags[0], "attribute": flags[1]}
        payload = {"input": x if len(x) <= 2000 else x[:2000] + "...", "len": len(x), "flags": fl, "class": cls}
        if len(x) > 2000:
            payload["input_full"] = x
        before = cache_probe()
        del MON.match_log[:]
        n = len(x)
        self.steps.count = 0
        if self.steplimit_hits >= 4:
            raise AbortWorkload("step bound exceeded %d times" % self.steplimit_hits)
        self.steps.limit = step_bound(n)
        t_cpu = time.thread_time()
        if self.cpu_timer:
            signal.setitimer(signal.ITIMER_VIRTUAL, cpu_bound(n))
        try:
            r = call_guard(fn, expected=self.expected)
        except CpuLimit:
            r = ("cpulimit",)
            self.steplimit_hits += 4          # one is enough: every further hit would cost minutes
        except StepLimit:
            r = ("steplimit",)
            self.steplimit_hits += 1
        finally:
            if self.cpu_timer:
                signal.setitimer(signal.ITIMER_VIRTUAL, 0)
            self.steps.limit = None
        ctx.notes["max_cpu_s_per_call"] = round(max(ctx.notes.get("max_cpu_s_per_call", 0), time.thread_time() - t_cpu), 3)
        used = self.steps.count
        ctx.count("calls")
        ctx.count("steps", used)
        if n:
            ctx.notes["max_steps_per_char"] = max(ctx.notes.get("max_steps_per_char", 0), used / float(n + 10))
        after = cache_probe()
        if after["table"] != before["table"] or after["table_id"] != before["table_id"] or after["reported"] != before["reported"]:
            ctx.finding("global-table-changed-by-translation", payload, "table before %r after %r" % (before["reported"], after["reported"]))
        if after["presets"] != before["presets"]:
            ctx.finding("preset-changed-by-translation", payload, "presets before %r after %r" % (before["presets"], after["presets"]))
        MON.drain()
        if r[0] == "ok":
            ctx.count("returned")
            v = r[1]
            if flags[1]:
                if not (isinstance(v, tuple) and len(v) == 2 and isinstance(v[0], str)):
                    ctx.finding("bad-return-type", payload, repr(type(v)))
            elif not isinstance(v, str):
                ctx.finding("bad-return-type", payload, repr(type(v)))
        elif r[0] == "err":
            ctx.count("raised_expected")
        elif r[0] == "steplimit":
            ctx.finding("step-bound-exceeded", payload, "more than %d line events for %d characters" % (step_bound(n), n))
        elif r[0] == "cpulimit":
            ctx.finding("cpu-bound-exceeded", payload, "more than %.0f s of CPU time for %d characters after only %d line events: "
                        "the time is spent inside one statement" % (cpu_bound(n), n, used))
        else:
            ctx.count("escaped")
            self.classify_escape(r, x, payload)
        return r

    def classify_escape(self, r, x, payload):
        ctx = self.ctx
        etype, frame, msg = r[1], r[2], r[3]
        detail = "%s from %s: %s" % (etype, frame, msg)
        if etype == "RecursionError":
            if self.which == "decoder" and branch_symbol_count(x) >= 300:
                ctx.finding("F5-decoder-recursion-depth", payload, detail + " (input has %d branch symbols)" % branch_symbol_count(x))
                return
            if self.which == "encoder" and paren_depth(x) >= 300:
                ctx.finding("F9-encoder-recursion-depth", payload, detail + " (parenthesis depth %d)" % paren_depth(x))
                return
        if self.which == "encoder":
            bad = [m for m in MON.match_log if m["verdict"] in ("false_none", "invalid_matching")]
            if bad and any(not m["bipartite"] for m in bad):
                ctx.finding("F3-matching-nonbipartite", payload, detail + " (M4: matching routine wrong on a non-bipartite graph in this call)")
                return
        ctx.finding("escape:%s@%s" % (etype, frame), payload, detail)
