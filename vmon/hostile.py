"""G7 (hostile strings) and G9 (legacy symbols)."""
from vmon.refsem import INDEX_SYMBOLS

SELFIES_CHARS = list("[]..CNOSPFIBHclr=#/\\@+-0123456789%:()") + [
    "Ring", "Branch", "expl", "eps", "nop", "[nop]", "[epsilon]", "[C]", "[=C]", "[Ring1]", "[Branch1]",
    "_1", "Expl", "٣", "²", "é", "​", "\x00", "\n", " ", "\t", "[", "]", "[[", "]]", "][", "ß", "Ⅷ", "\ud800",
    "Cl", "Br", "Fe", "Xx", "H1", "+1", "-1", "@@", "13",
    "{", "}", "{}", "{0}", "{x}", "{!r}", "{0:d}", "%s", "%d", "%(x)s", "%%", "\\1", "\\d", "(?", "(?P<a>", "*", "+", "?", "^", "$", "|", "~",
    "'", '"', "`", ";", ",", "<", ">", "&", "\r", "\x7f", "\u200d", "\U0001F600"]
MODERN = ['[C]', '[=C]', '[#C]', '[N]', '[=N]', '[O]', '[=O]', '[F]', '[S]', '[P]', '[Cl]', '[Branch1]', '[=Branch1]',
          '[#Branch2]', '[Branch3]', '[Ring1]', '[=Ring1]', '[Ring2]', '[#Ring3]', '[C@@H1]', '[N+1]', '[O-1]',
          '[epsilon]', '[nop]', '[/C]', '[\\C]', '[-/Ring1]', '[//Ring2]', '[Fe+2]', '[13CH3]', '[H]', '.',
          '[CH4]', '[NH4+1]', '[OH2]', '[ClH1]', '[CH3]', '[NH3+1]', '[PH4]', '[SH3]', '[BH4-1]']
BROKEN = ['[', ']', '[]', '[[C]', '[C]]', 'C', '[C', 'C]', '[Xx]', '[CH9]', '[C+0]', '[c]', '[=]', '[#', '[Ring]',
          '[Ring4]', '[Branch0]', '[=Branch]', '[-Ring1]', '[--Ring1]', '[C@@@]', '[CH]', '[C+]', '[1]', '[+1]',
          '[epsilon', 'epsilon]', '[eps]', '[xepsx]', '[epsBranch1]', '[nop', '[Nop]', '[ C ]', '[C ]', '..', '.',
          '[٣C]', '[C+٣]', '[CH²]', '[CH٣]', '[C\x00]', '[\n]', '[C.C]', '[Branchch1]', '[ngng]', '[chch]',
          '[Ringng]', '[ng1]', '[ch1]', '[{}]', '[{0}]', '[{1}]', '[C{x}]', '[{]', '[}]', '[{!}]', '[=C{0:d}expl]', '[%s]', '[%d]',
          '[C%s]', '[%(a)s]', '[\\1]', '[C\\]', '[(?P<x>C)]', '[C*]', '[C+]', '[.]', '[C$]', '[^C]', '[C|N]', "[C']", '[C"]', '[' + 'C' * 50 + ']', '[999999999999999999999C]', '[C-999999999999999999]']
LEGACY = ['[Branch1_1]', '[Branch1_2]', '[Branch1_3]', '[Branch2_1]', '[Branch2_2]', '[Branch2_3]', '[Branch3_1]',
          '[Branch3_2]', '[Branch3_3]', '[Expl=Ring1]', '[Expl=Ring2]', '[Expl=Ring3]', '[Expl#Ring1]', '[Expl#Ring2]',
          '[Expl#Ring3]', '[Expl/Ring1]', '[Expl/Ring2]', '[Expl\\Ring1]', '[Expl\\Ring3]', '[C@@Hexpl]', '[N+expl]',
          '[O-expl]', '[Fe++expl]', '[=N+expl]', '[Cexpl]', '[13CH2expl]', '[/C@Hexpl]', '[S+expl]', '[Hexpl]',
          '[cexpl]', '[Xxexpl]', '[Nexpl]', '[CH0expl]', '[C+0expl]', '[N--expl]', '[B-expl]', '[#C-expl]',
          '[\\O-expl]', '[nHexpl]', '[C@@expl]', '[CH1expl]', '[Fe+3expl]', '[Cu+2expl]', '[expl]', '[=expl]',
          '[C:1expl]', '[12CH3-expl]', '[Branch1_4]', '[Branch4_1]', '[Expl-Ring1]', '[Expl=Ring4]', '[ExplRing1]']

SMILES_CHARS = list("CNOSPFIBcnosp[]()=#:/\\.-+@H123456789%0$*~{}'\"`;,<>&^|?!") + [
    "{}", "{0}", "%s", "%d", "%(x)s", "[{}]", "[C{0}]", "[%s]", "\\1", "\r", "\x7f", "\u200d",
    "Cl", "Br", "[nH]", "[C@@H]", "[O-]", "[N+]", "%10", "%01", "c1", "C1", "(", ")", "[", "]", "Si", "se", "[se]",
    "[Fe+2]", "[13C]", "[CH3:1]", "٣", "²", "é", "\x00", " ", "\n", "@@", "@TH1", "->", "<-", "&", "!", "[*]", "%(100)",
    "\ud800", "%٣٣", "H٣"]
SMILES_SEEDS = ['C1=CC=CC=C1', 'c1ccccc1', 'CC(C)(C)C', 'C/C=C\\C', '[C@@H](F)(Cl)Br', 'c1ccc2ccccc2c1', 'C%10CC%10',
                '[Fe+2]', 'O=c1cccc[nH]1', 'C.C', 'F/C=C/F', 'C12CC1C2', 'C1CC1', 'c1ccc[se]1', 'N1C=CC=C1', 'C#N',
                '[NH4+].[Cl-]', 'C(=O)([O-])c1ccccc1', 'c1cc[cH-]c1', 'C1=CC=C2C(=C1)C=CC=C2', '[13CH4]', 'C[N+](C)(C)C',
                '[P@]1(F)(Cl)(Br)CCC1', 'C[S@]1(F)(F)(F)CCC1', '[C@]1(F)(Cl)(Br)CC1', 'F[S@@](F)(F)(F)(F)C1CC1', 'C[P@@]12(F)(Cl)CCC1CC2',
                'O1CC([C@@H]21)CCN2', 'C([C@H]12)(F)CCN2CCO1', 'C1CCO[C@](F)(Cl)1', 'C(CCC1)(F)1', 'c1c[nH]c[nH]1', 'c12ccccc1oco2']


def random_chars(rng, pool, maxlen=40):
    return "".join(rng.choice(pool) for _ in range(rng.randint(0, maxlen)))


def mutate_chars(rng, s, pool, n=None):
    s = list(s)
    for _ in range(n or rng.randint(1, 3)):
        op = rng.random()
        p = rng.randrange(len(s) + 1)
        if op < 0.4 or not s:
            s.insert(p, rng.choice(pool))
        elif op < 0.7:
            s.pop(min(p, len(s) - 1))
        elif op < 0.9:
            s[min(p, len(s) - 1)] = rng.choice(pool)
        else:
            q = rng.randrange(len(s))
            s[q:q] = s[min(p, q):max(p, q)][:20]
    return "".join(s)


def blow_up_number(rng, s, pool):
    """Replace one numeric field of s (a digit run, or put one after a sign / H / ':' / '%') by a huge digit run."""
    k = rng.choice([10, 30, 64, 100, 309, 310, 400, 640, 999, 1000, 1001, 4299, 4300, 4301, 6000])
    d = rng.choice("123456789") + (rng.choice("0123456789") * (k - 1) if rng.random() < 0.7 else
                                   "".join(rng.choice("0123456789") for _ in range(k - 1)))
    if rng.random() < 0.3:
        # something that does not belong there right after the digit run: whatever pattern matched the digits has to
        # give them back (a pattern that can split a digit run in many ways then backtracks)
        d += rng.choice(["x", "?", ":", "+-", " ", "\u00b2", "H:", "@", "."])
    spots = [i for i, ch in enumerate(s) if ch in "0123456789+-H:%@["]
    if not spots:
        return s + d
    i = rng.choice(spots)
    if s[i] in "0123456789":
        j = i
        while j < len(s) and s[j] in "0123456789":
            j += 1
        return s[:i] + d + s[j:]
    return s[:i + 1] + d + s[i + 1:]


def legacy_atom(rng):
    """A pre-v2 atom symbol put together field by field: bond prefix, isotope, element (any case, aromatic ones too),
    chirality, H count, charge in either notation - then 'expl'."""
    el = rng.choice(["C", "N", "O", "S", "P", "B", "F", "Cl", "Br", "I", "Fe", "Cu", "Si", "Se", "c", "n", "o", "s", "p", "b", "se", "as", "te", "Xx", "H"])
    s = rng.choice(["", "", "", "=", "#", "/", "\\"])
    s += rng.choice(["", "", "", "13", "2", "0", "235", "015"])
    s += el
    s += rng.choice(["", "", "", "@", "@@"])
    s += rng.choice(["", "", "H", "H1", "H2", "H0", "H3"])
    s += rng.choice(["", "", "+", "-", "++", "--", "+1", "-1", "+2", "-3", "+0", "+10"])
    return "[" + s + "expl]"


def hostile_selfies(rng, seeds=()):
    """One hostile decoder input with a class tag."""
    x = rng.random()
    if x < 0.20:
        return "chars", random_chars(rng, SELFIES_CHARS)
    if x < 0.45:
        pool = MODERN + MODERN + BROKEN + LEGACY
        return "tokens", "".join(rng.choice(pool) for _ in range(rng.randint(0, 25)))
    if x < 0.60 and seeds:
        return "mutated", mutate_chars(rng, rng.choice(seeds), SELFIES_CHARS)
    if x < 0.72:
        pool = MODERN + LEGACY + LEGACY
        return "legacy", "".join((rng.choice(pool) if rng.random() < 0.75 else legacy_atom(rng)) for _ in range(rng.randint(1, 20)))
    if x < 0.76 and seeds:
        return "digits", blow_up_number(rng, rng.choice(list(seeds) + ["[13CH3][N+1][Fe+2][C@@H1][=Ring2][Branch3]"]), None)
    if x < 0.80:
        k = rng.choice([10, 30, 64, 100, 640, 1000, 1001, 4299, 4300, 4301, 6000])
        form = rng.choice(["[%sC]", "[C+%s]", "[C-%s]", "[%sCH1-%s]", "[CH%s]", "[C@@H1+%s]", "[=%sFe]", "[%sCexpl]", "[C+%sexpl]", "[Ring%s]", "[Branch%s]", "[C:%sexpl]"])
        d = rng.choice("123456789") * k if rng.random() < 0.7 else "".join(rng.choice("0123456789") for _ in range(k))
        if rng.random() < 0.35:
            d += rng.choice(["x", "?", ":", "+-", " ", "\u00b2", "H:", "@", ".", ":x", "-+"])     # the field cannot end here
        return "digits", rng.choice(["", "[C]", "[C][Branch1]"]) + form.replace("%s", d) + rng.choice(["", "[C]"])
    if x < 0.84:
        n = rng.choice([50, 299, 301, 600, 900, 980, 1100, 2500])
        unit = rng.choice(["[S][Branch1][P]", "[C][=Branch2][P][P]", "[P][#Branch1][S]", "[C][Branch1_2][P]", "[N+1][Branch3][P][P][P]"])
        return "deep", unit * n + rng.choice(["", "[C]", "[Xx]", "["])
    if x < 0.88:
        n = rng.choice([200, 500, 500, 2000, 6000 if rng.random() < 0.2 else 1000])
        unit = rng.choice(["[C]", "[C][Branch1][C][F]", "[C][C][C][Ring1][Ring1]", "[C].", "[nop]", "[epsilon]", "[C][=C][Ring1][C]", "[Ring1]", "[Branch1]"])
        reps = max(1, n // max(1, unit.count("[") + unit.count(".")))
        body = unit * reps
        if rng.random() < 0.5:
            head = "".join(rng.choice(MODERN + LEGACY) for _ in range(rng.randint(1, 8)))
            body = rng.choice([head + body, body + head, head + body + head])
        return "long", body
    return "edge", rng.choice(["", ".", "..", "[", "]", "[]", "[nop]", "[nop].[nop]", ".[C]", "[C].", "[epsilon]",
                               "[Ring1]", "[Branch1]", "[Branch3]", "[Ring3][C]", "[C][Ring3]", "[C][Branch3][C]",
                               "\x00", "[C]\n", " [C]", "[C] [C]", "C", "[C]C[C]", "[C][", "][", "[C]]", "[[C]"])


def hostile_smiles(rng, seeds=()):
    x = rng.random()
    if x < 0.25:
        return "chars", random_chars(rng, SMILES_CHARS, 14)
    if x < 0.70:
        pool = list(seeds[:200]) + SMILES_SEEDS if seeds else SMILES_SEEDS
        return "mutated", mutate_chars(rng, rng.choice(pool), SMILES_CHARS)
    if x < 0.74:
        pool = (list(seeds[:200]) if seeds else []) + SMILES_SEEDS + ["c1cccc[c+]1", "c1cc[nH+]cc1", "[13cH]1ccccc1", "c1cc[n+](C)cc1",
                                                                      "C[C@@H]1CC[NH2+]C1", "[Fe+2].[O-]C(=O)c1ccccc1", "C%12CCC%12", "[CH3:7]O"]
        return "digits", blow_up_number(rng, rng.choice(pool), None)
    if x < 0.77:
        k = rng.choice([10, 30, 64, 100, 640, 1000, 1001, 4299, 4300, 4301, 6000])
        form = rng.choice(["[%sC]", "[C+%s]", "[C-%s]", "[%sCH-%s]", "[CH%s]", "[C:%s]", "C%%%s", "C%s", "[%sc]1ccccc1"])
        d = rng.choice("123456789") * k if rng.random() < 0.7 else "".join(rng.choice("0123456789") for _ in range(k))
        if rng.random() < 0.35:
            d += rng.choice(["x", "?", ":", "+-", " ", "\u00b2", "H:", "@", ".", ":x", "-+"])     # the field cannot end here
        return "digits", rng.choice(["", "C", "C("]) + form.replace("%s", d) + rng.choice(["", "C", ")C"])
    if x < 0.80:
        n = rng.choice([50, 299, 301, 600, 900, 990, 1100, 2500])
        kind = rng.random()
        if kind < 0.5:
            return "deep", "C(" * n + "F" + ")F" * n
        if kind < 0.8:
            return "deep", "C(" * n + "F" + ")" * n
        return "deep", "(" * n + "C" + ")" * n
    if x < 0.84:
        n = rng.choice([200, 500, 500, 2000, 6000 if rng.random() < 0.2 else 1000])
        unit = rng.choice(["C", "C(F)", "C1CC1", "c1ccccc1", "C.", "C=", "[C@@H](F)", "C%10CC%10", "c1ccccc1.", "N(C)", "C#"])
        body = (unit * max(1, n // len(unit))).rstrip("=#.") or "C"
        if rng.random() < 0.5:
            # a feature-rich head (chiral ring atoms, stereo bonds, aromatic rings, charges) in front of / behind the long part
            pool = list(seeds[:50]) + SMILES_SEEDS + ["C[C@H]1CCCC1", "C[C@@]12CCCC1CCO2", "F/C=C/1CCCC/1", "[C@H](F)(Cl)1CCCC1", "c1cc[nH]c1", "C[N+](C)(C)C"]
            head = rng.choice(pool)
            body = rng.choice([head + body, body + head if not body.endswith(".") else body + "." + head,
                               head + "." + body, head + "(" + body + ")C"])
        return "long", body
    if x < 0.87:
        # any element in an aromatic position: lower-case bracket spelling inside a ring, or upper case with ':' bonds;
        # with and without H / charge / isotope
        from vmon.smiles_reader import ELEMENTS
        el = rng.choice(sorted(ELEMENTS))
        body = rng.choice(["", "", "H", "H2", "+", "-", "H+", "H-"])
        iso = rng.choice(["", "", "", "13", "0"])
        if rng.random() < 0.6:
            a = "[%s%s%s]" % (iso, el.lower(), body)
            t = rng.choice(["%s1ccccc1", "c1cc%scc1", "%s1cccc1", "c1c%sccc1C", "C%s1ccccc1", "%s1cc%scc1", "c1ccc2%sccc2c1", "%s", "C%sC", "%s:%s"])
        else:
            a = "[%s%s%s]" % (iso, el, body)
            t = rng.choice(["%s:1:c:c:c:c:c:1", "C1:C:C:%s:C:C:1", "%s:1cccc1", "%s1:C:C:C:C:1", "C:%s", "%s:%s", "c1cc:%s:cc1"])
        return "aromatic-any-element", t.replace("%s", a)
    if x < 0.94:
        # ring-closure trouble: self closures, mismatched bonds, reuse, aromatic bond symbols anywhere
        return "rings", rng.choice(["C11", "C1C1", "C12C12", "C=1CC-1", "C/1CC\\1", "C1CC=1", "C%11%11", "C1CC2", "C1(C1)", "C1.C1",
                                    "F:F", "C:C", "c:F", "[Fe]:[Fe]", "c1ccccc1:F", "C:1CC:1", "c1cc:c:cc1", "[nH]:1cccc1", "O:O",
                                    "c1ccccc1c", "cc", "c", "[c]", "c1cc1", "c1ccc1", "n1nnn1", "[cH-]1cccc1", "c1ccccc1C:C",
                                    "C1CC%01", "C%01CC1", "C0CC0", "C%00CC0", "C1CC1C1CC1", "C12345678CCCCCCCC12345678",
                                    "[Na]:1CCCC1", "[Na]1CCCC:1", "F1CCCC:1", "C1CC[Fe]:1", "[H]:1CC1", "Cl:1CC:1", "c1ccccc1:[Na]",
                                    "[Zn]:1cccc:1", "C:1CCC[Cl+]:1", "O=[Xe]:1CC:1", "C²CC²", "C%½½CC%½½", "C①CC①", "C٣CC٣"])
    return "edge", rng.choice(["", ".", "..", "C.", ".C", "C..C", "(", ")", "()", "C()", "C(C", "C)C", "[", "]", "[]", "[C", "C]",
                               "=", "=C", "C=", "C==C", "C=(C)", "(C)", "C((C))", "1", "1C1", "%", "C%", "C%1", "C%1C%1", "*", "C*",
                               "C$C", "[C@TH1](F)(Cl)Br", "[C@@@H]", "[CH2-]", "[C--]", "[C+-]", "[HH]", "[H]", "[2H]", "\x00", " C",
                               "C C", "C\n", "[Cl-].[Na+]", "[C:1]", "[C:]", "[:1]", "Cl", "Clc", "Brr", "Sc", "[Sc]", "[cl]", "[Cu]",
                               "[se]", "[te]1cccc1", "[Te]", "b1ccccc1", "[al]1cccc1"])
