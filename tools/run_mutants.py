#!/usr/bin/env python3
"""Self-validation: apply each mutant of tools/mutants.py (or each seeded
patch of seeded/*/patch.diff) to a scratch copy of /repo, run the repository's
fast tests there, then the expected checks (quick tier) with SELFIES_REPO
pointing at the copy.  Nothing is ever written to /repo.

usage: run_mutants.py [--all-checks] [--checks=C01,C02] [--seeded] [name-prefix ...]"""
import json
import os
import re
import shutil
import subprocess
import sys
import time

ROOT = os.path.dirname(os.path.dirname(os.path.abspath(__file__)))
sys.path.insert(0, os.path.join(ROOT, "tools"))
REPO = "/repo"
SCR = "/tmp/vmut"
ALL = ["C%02d" % i for i in range(1, 20)]


def sh(cmd, env=None, cwd=None, timeout=1800):
    try:
        o = subprocess.run(cmd, capture_output=True, text=True, env=env, cwd=cwd, timeout=timeout)
        return o.returncode, o.stdout + o.stderr
    except subprocess.TimeoutExpired:
        return -9, "TIMEOUT"


def make_copy(name):
    d = os.path.join(SCR, name)
    shutil.rmtree(d, ignore_errors=True)
    os.makedirs(d)
    shutil.copytree(os.path.join(REPO, "selfies"), os.path.join(d, "selfies"), ignore=shutil.ignore_patterns("__pycache__"))
    shutil.copytree(os.path.join(REPO, "tests"), os.path.join(d, "tests"), ignore=shutil.ignore_patterns("__pycache__", "error_logs"))
    return d


def suite(d):
    env = dict(os.environ, PYTHONPATH=d, PYTHONDONTWRITEBYTECODE="1")
    rc, out = sh(["/venv/bin/python", "-m", "pytest", "-q", "-x", "-p", "no:cacheprovider",
                  os.path.join(d, "tests/test_selfies.py"), os.path.join(d, "tests/test_specific_cases.py"),
                  os.path.join(d, "tests/test_selfies_utils.py")], env, "/tmp", timeout=900)
    # make sure the copy was really the one imported
    return "PASS" if rc == 0 else "FAIL"


def checks(d, props, seed=0):
    res = {}
    for p in props:
        env = dict(os.environ, SELFIES_REPO=d, VERIF_SEED=str(seed), VMON_NO_EVIDENCE="1")
        t = time.time()
        rc, out = sh([os.path.join(ROOT, "check"), p, "--tier", "quick"], env, ROOT, timeout=1500)
        mech = sorted(set(re.findall(r"mechanism=(\S+)", out)))
        res[p] = (rc, mech[:4], round(time.time() - t))
    return res


def main():
    args = sys.argv[1:]
    allchecks = "--all-checks" in args
    seeded = "--seeded" in args
    only = [a for a in args if not a.startswith("--")]
    override = [a.split("=", 1)[1].split(",") for a in args if a.startswith("--checks=")]
    os.makedirs(SCR, exist_ok=True)
    jobs = []
    if seeded:
        sd = os.path.join(ROOT, "seeded")
        for name in sorted(os.listdir(sd)):
            pf = os.path.join(sd, name, "patch.diff")
            if os.path.exists(pf) and (not only or any(name.startswith(o) for o in only)):
                meta = json.load(open(os.path.join(sd, name, "meta.json")))
                jobs.append((name, ("patch", pf), meta.get("property_ids") or [meta.get("property")]))
    else:
        from mutants import M, PREAMBLE
        for name, f, old, new, props in M:
            if only and not any(name.startswith(o) for o in only):
                continue
            jobs.append((name, ("replace", f, old, new, PREAMBLE.get(name)), props))
    summary = []
    for name, how, props in jobs:
        d = make_copy(name)
        ok = True
        if how[0] == "patch":
            rc, out = sh(["git", "apply", "--directory=" + os.path.relpath(d, "/"), "--unsafe-paths", how[1]], cwd="/")
            if rc != 0:
                rc, out = sh(["patch", "-p1", "-d", d, "-i", how[1]])
            ok = rc == 0
            if not ok:
                print("==", name, "PATCH DOES NOT APPLY", out[-300:])
        else:
            _, f, old, new, pre = how
            p = os.path.join(d, f)
            s = open(p).read()
            if old not in s:
                print("==", name, "PATTERN NOT FOUND")
                ok = False
            else:
                s = s.replace(old, new, 1)
                if pre:
                    pf, po, pn = pre
                    if pf == f:
                        s = s.replace(po, pn, 1)
                open(p, "w").write(s)
        if not ok:
            shutil.rmtree(d, ignore_errors=True)
            continue
        st = suite(d)
        res = checks(d, override[0] if override else (ALL if allchecks else (props or ALL)))
        fired = [p for p, (rc, _, _) in res.items() if rc == 1]
        incon = [p for p, (rc, _, _) in res.items() if rc not in (0, 1)]
        verdict = "CAUGHT" if fired else ("INCONCLUSIVE" if incon else "MISSED")
        print("== %-40s suite:%s  %s  fired=%s %s" % (name, st, verdict, fired, ("inconclusive=%s" % incon) if incon else ""))
        for p in fired:
            print("      %s mechanisms %s (%ss)" % (p, res[p][1], res[p][2]))
        sys.stdout.flush()
        summary.append({"name": name, "suite": st, "verdict": verdict, "fired": fired, "inconclusive": incon,
                        "mechanisms": {p: res[p][1] for p in fired}})
        shutil.rmtree(d, ignore_errors=True)
    out = os.path.join(ROOT, "work", "mutants-%s.json" % ("seeded" if seeded else "own"))
    os.makedirs(os.path.dirname(out), exist_ok=True)
    json.dump(summary, open(out, "w"), indent=1)
    print("caught %d / %d ; missed: %s" % (sum(1 for s in summary if s["verdict"] == "CAUGHT"), len(summary),
                                           [s["name"] for s in summary if s["verdict"] != "CAUGHT"]))


if __name__ == "__main__":
    main()
