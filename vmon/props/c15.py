"""C15 - label / one-hot encodings are exact inverses of their decoders."""
from vmon import env
from vmon.hooks import call_guard

ID = "C15"
LEVEL = "exploration"
RULE = ("random vocabularies (any bijection symbols <-> 0..n-1 over 2-14 symbols incl. odd symbol text, with or without '.', always "
        "with [nop]), strings of 0-12 symbols over them, pad lengths -5..L+20, all enc_type values; compared with a 10-line model "
        "(indices + [nop] padding to max(len, pad), one 1 per row); inverses exact; batch functions element-wise; missing symbol, "
        "missing '.', bad enc_type, ragged flat vector must raise. distinct = distinct (vocabulary, string, pad); non-trivial = "
        "string of >= 2 symbols")
ASSUMPTIONS = ["vocabularies are bijections onto 0..n-1 as the documentation requires"]
SYMS = ['[nop]', '[C]', '[=C]', '[N]', '[O]', '[F]', '[Ring1]', '[Branch1]', '.', '[X y]', '[]', '[é]', '[#N+1]', '[epsilon]']


def shards(tier):
    return 8


def floors(tier):
    return {"cases": 5000, "padded": 1500, "pad_smaller_or_negative": 1500, "with_dot": 500, "error_paths": 1500,
            "batches": 2000, "vocabulary_object_reused": 500, "vocabulary_grown_in_place": 1000, "with_trailing_dot": 200, "default_argument_forms": 1000, "scale_cases": 300}


def run(ctx):
    sf = env.varied(env.load_selfies(), ctx)
    rng = ctx.rng
    quick = ctx.tier == "quick"
    shared_stoi, shared_itos = {}, {}
    for it in range(2500 if quick else 150000):
        big = it % 60 == 59          # scale: a vocabulary of hundreds to thousands of symbols, long strings, wide pads, large batches
        syms = list(SYMS) + (["[%d%s]" % (n_, rng.choice(["C", "N", "Fe"])) for n_ in range(rng.choice([300, 1000, 2000]))] if big else [])
        rng.shuffle(syms)
        k = rng.randint(2, len(syms)) if not big else len(syms)
        voc = syms[:k]
        if big:
            ctx.count("scale_cases")
        if '[nop]' not in voc:
            voc[rng.randrange(k)] = '[nop]'
        pairs = list(enumerate(voc))
        rng.shuffle(pairs)                      # a bijection is a bijection whatever order the dict was filled in
        stoi = {s: i for i, s in pairs}
        rng.shuffle(pairs)
        itos = {i: s for i, s in pairs}
        if it % 3 == 0:
            # one long-lived vocabulary object, changed in place between calls (grows, shrinks, is re-numbered)
            shared_stoi.clear()
            shared_stoi.update(stoi)
            shared_itos.clear()
            shared_itos.update(itos)
            stoi, itos = shared_stoi, shared_itos
            ctx.count("vocabulary_object_reused")
        body = [s for s in voc if s != '.']
        toks = [rng.choice(body) for _ in range(rng.randint(0, 12) if not big else rng.choice([100, 300, 600]))]
        if '.' in stoi and len(toks) >= 2 and rng.random() < 0.5:
            toks.insert(rng.randint(1, len(toks) - 1), '.')
            ctx.count("with_dot")
        if '.' in stoi and toks and toks[-1] != '.' and rng.random() < 0.12:
            toks.append('.')        # one trailing dot: split_selfies yields it as an item, so it is a symbol like any other
            ctx.count("with_trailing_dot")
        s = ''.join(toks)
        L = len(toks)
        pad = rng.choice([-5, -1, 0, L - 1, L, L + 1, L + 5, L + 20] + ([L + 400, 1000] if big else []))
        payload = {"selfies": s, "vocab": voc, "pad": pad}
        ctx.count("cases")
        ctx.count("padded" if pad > L else "pad_smaller_or_negative")
        ctx.case((tuple(voc), s, pad), L >= 2, sample=payload if L >= 3 else None)
        exp = [stoi[t] for t in toks] + [stoi['[nop]']] * max(0, pad - L)
        back = s + '[nop]' * max(0, pad - L)
        r = call_guard(lambda: sf.selfies_to_encoding(s, stoi, pad_to_len=pad, enc_type='both'))
        if r[0] != "ok":
            ctx.finding("encoding-raises", payload, repr(r)[:300])
            continue
        lab, hot = r[1]
        if lab != exp:
            ctx.finding("label-encoding-wrong", payload, "got %r want %r" % (lab, exp))
        if len(hot) != len(exp) or any(len(row) != len(stoi) or sum(row) != 1 or row[e] != 1 or any(v not in (0, 1) for v in row)
                                       for row, e in zip(hot, exp)):
            ctx.finding("one-hot-encoding-wrong", payload, "one-hot rows do not have exactly one 1 at the label index")
        if it % 5 == 0:
            # documented defaults: pad_to_len=-1, enc_type='both'; keyword forms
            dflt = call_guard(lambda: sf.selfies_to_encoding(s, stoi))
            exp0 = [stoi[t] for t in toks]
            if dflt[0] != "ok" or dflt[1][0] != exp0 or len(dflt[1][1]) != len(exp0):
                ctx.finding("default-arguments-wrong", payload, repr(dflt)[:200])
            kw = call_guard(lambda: sf.selfies_to_encoding(selfies=s, vocab_stoi=stoi, pad_to_len=pad, enc_type="label"))
            if kw != ("ok", lab):
                ctx.finding("keyword-call-differs", payload, repr(kw)[:200])
            bd = call_guard(lambda: sf.batch_selfies_to_flat_hot([s], stoi))
            if bd != ("ok", [[e for row in sf.selfies_to_encoding(s, stoi, -1, 'one_hot') for e in row]]):
                ctx.finding("default-arguments-wrong", payload, "batch default pad: " + repr(bd)[:200])
            ctx.count("default_argument_forms")
        a = call_guard(lambda: sf.selfies_to_encoding(s, stoi, pad, 'label'))
        b = call_guard(lambda: sf.selfies_to_encoding(s, stoi, pad, 'one_hot'))
        if a != ("ok", lab) or b != ("ok", hot):
            ctx.finding("enc-type-variants-disagree", payload, "label/one_hot differ from both")
        for enc, typ in ((lab, 'label'), (hot, 'one_hot')):
            d = call_guard(lambda: sf.encoding_to_selfies(enc, itos, typ))
            if d != ("ok", back):
                ctx.finding("decoding-not-inverse", payload, "%s: %r want %r" % (typ, d, back))
        batch = [s, s[:0], s] if not big else [s] * rng.choice([3, 20])
        fl = call_guard(lambda: sf.batch_selfies_to_flat_hot(batch, stoi, pad))
        ctx.count("batches")
        want_fl = []
        for bs in batch:
            h = sf.selfies_to_encoding(bs, stoi, pad, 'one_hot')
            want_fl.append([e for row in h for e in row])
        if fl != ("ok", want_fl):
            ctx.finding("batch-not-elementwise", payload, repr(fl)[:200])
        else:
            un = call_guard(lambda: sf.batch_flat_hot_to_selfies(fl[1], itos))
            want_un = [back, '[nop]' * max(0, pad), back] if not big else [back] * len(batch)
            if un != ("ok", want_un):
                ctx.finding("batch-inverse-wrong", payload, "%r want %r" % (un, want_un))
        # error paths
        ctx.count("error_paths")
        e1 = call_guard(lambda: sf.selfies_to_encoding(s, stoi, pad, rng.choice(['Label', 'onehot', '', None, 'both '])))
        if e1[0] == "ok":
            ctx.finding("bad-enc-type-accepted", payload, repr(e1)[:100])
        e2 = call_guard(lambda: sf.encoding_to_selfies(lab, itos, rng.choice(['both', 'Label', ''])))
        if e2[0] == "ok":
            ctx.finding("bad-enc-type-accepted", payload, repr(e2)[:100])
        # a label / a hot position outside 0..n-1 names no symbol: raising is the only right answer (-1 is the usual
        # "ignore" label of training pipelines)
        nv = len(itos)
        bad_label = rng.choice([-1, -1, -2, -nv, -nv - 1, nv, nv + 1, 10 ** 9])
        bad_at = rng.randrange(len(lab) + 1)
        e0 = call_guard(lambda: sf.encoding_to_selfies(lab[:bad_at] + [bad_label] + lab[bad_at:], itos, 'label'))
        if e0[0] == "ok":
            ctx.finding("label-outside-vocabulary-accepted", dict(payload, label=bad_label), repr(e0)[:100])
        missing = '[Zz]'
        e3 = call_guard(lambda: sf.selfies_to_encoding(s + missing, stoi, pad, 'label'))
        if e3[0] == "ok":
            ctx.finding("missing-symbol-accepted", payload, repr(e3)[:100])
        if '.' not in stoi and L >= 1:
            e4 = call_guard(lambda: sf.selfies_to_encoding(s + '.' + '[nop]', stoi, pad, 'label'))
            if e4[0] == "ok":
                ctx.finding("missing-dot-accepted", payload, repr(e4)[:100])
        if pad > L and True:
            st2 = {kk: v for kk, v in stoi.items() if kk != '[nop]'}
            if len(st2) >= 1:
                e5 = call_guard(lambda: sf.selfies_to_encoding(s, st2, pad, 'label'))
                if e5[0] == "ok":
                    ctx.finding("missing-nop-accepted", payload, repr(e5)[:100])
        if len(stoi) > 1 and want_fl and want_fl[0]:
            ragged = [want_fl[0] + [0]]
            e6 = call_guard(lambda: sf.batch_flat_hot_to_selfies(ragged, itos))
            if e6[0] == "ok":
                ctx.finding("ragged-vector-accepted", payload, repr(e6)[:100])
        # the same vocabulary object grows in place (a new symbol is appended) and is used again at once
        if it % 2 == 0:
            new_sym = "[Zq%d]" % (it % 7)
            stoi[new_sym] = len(stoi)
            itos[len(itos)] = new_sym
            ctx.count("vocabulary_grown_in_place")
            s2 = s + (new_sym if rng.random() < 0.5 else "")
            toks2 = toks + ([new_sym] if s2 != s else [])
            exp2 = [stoi[t] for t in toks2] + [stoi['[nop]']] * max(0, pad - len(toks2))
            r2 = call_guard(lambda: sf.selfies_to_encoding(s2, stoi, pad_to_len=pad, enc_type='both'))
            if r2[0] != "ok":
                ctx.finding("encoding-raises-after-vocabulary-growth", payload, repr(r2)[:300])
            else:
                lab2, hot2 = r2[1]
                if lab2 != exp2 or len(hot2) != len(exp2) or any(
                        len(row) != len(stoi) or sum(row) != 1 or row[e] != 1 for row, e in zip(hot2, exp2)):
                    ctx.finding("encoding-wrong-after-vocabulary-growth", payload,
                                "labels %r (want %r), row widths %r (want %d)" % (lab2, exp2, sorted(set(len(r_) for r_ in hot2)), len(stoi)))
                back2 = call_guard(lambda: sf.encoding_to_selfies(hot2, itos, 'one_hot'))
                if back2 != ("ok", s2 + '[nop]' * max(0, pad - len(toks2))):
                    ctx.finding("decoding-not-inverse-after-vocabulary-growth", payload, repr(back2)[:200])
    return


def replay(ctx, payload):
    sf = env.load_selfies()
    voc = payload["vocab"]
    stoi = {s: i for i, s in enumerate(voc)}
    r = call_guard(lambda: sf.selfies_to_encoding(payload["selfies"], stoi, payload["pad"], "both"))
    ctx.finding("replay-observation", payload, repr(r)[:400])
