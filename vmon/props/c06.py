"""C06 - strict encoding rejects exactly the constraint-violating molecules;
non-strict encoding never raises for that reason and ignores the table."""
from vmon.oracles import read_decoder_output
from vmon import env, hooks, tablegen
from vmon.aromgen import standard_system, pi_set
from vmon.hooks import MON, call_guard, cache_probe
from vmon.matching import exact_pm
from vmon.molgen import random_tree_mol, spell, GAtom
from vmon.oracles import compare_roundtrip
from vmon.refsem import capacity
from vmon.smiles_reader import read_smiles, SmilesSyntaxError

ID = "C06"
LEVEL = "exploration"
RULE = ("random molecules generated under a table loosened by 0-2 per key and judged under the real table K, so that atoms sit "
        "below, at and above capacity (margin histogram in the evidence); charged atoms, explicit H, elements covered only by "
        "'?', kekulizable aromatic systems with known pi-demand; K is a preset, a perturbed preset or a random dict and is "
        "switched between the strict and the non-strict call. Oracle: independent reader + own capacity lookup on the table "
        "returned by get_semantic_constraints(). distinct = distinct (table, SMILES); non-trivial = molecule with >= 3 atoms")
ASSUMPTIONS = ["an atom's demand is its bond-order sum plus explicit H count; for aromatic atoms of standard kinds: sigma bonds plus "
               "one if the atom is in the pi-demand set"]


def shards(tier):
    return 16


def floors(tier):
    return {"judged": 5000, "margin<0": 500, "margin=0": 500, "margin>0": 500, "strict_rejects": 500,
            "strict_accepts": 500, "table_switches": 1000, "capacity_cache_warm_before_switch": 500,
            "q_only_element_atoms": 200, "charged_atoms": 500, "explicit_h_atoms": 500, "aromatic_judged": 50, "nonstrict_aromatic_table_sets": 1000}


def run(ctx):
    sf = env.varied(env.load_selfies(), ctx)
    hooks.attach_m1()
    hooks.attach_m1_encoder()
    rng = ctx.rng
    quick = ctx.tier == "quick"
    EXTRA = ["Si", "Se", "Fe", "Zr", "Xe", "Sn", "As"]
    n = 3000 if quick else 100000
    for i in range(n):
        K = tablegen.any_table(rng)
        if rng.random() < 0.5:
            K = tablegen.perturbed_preset(rng)
        try:
            table = tablegen.set_table_hostile(sf, K, rng, ctx)
        except ValueError:
            ctx.count("table_rejected")
            continue
        if rng.random() < 0.4:
            # the first call after the switch is a decode, not a strict encode
            call_guard(lambda: sf.decoder(rng.choice(["[C][S][=O][P][F]", "[N][Cl][Br][I][B]", "[Fe][Xe][Si][Se][As]", "[C][=C][#N]"])),
                       expected=(sf.DecoderError,))
            ctx.count("decode_first_after_switch")
        gen_table = {k: v + rng.choice([0, 0, 1, 1, 2]) for k, v in table.items()}
        aromatic = rng.random() < 0.08
        P = set()
        if aromatic:
            m, kind_of, ae = standard_system(rng, nrings=rng.choice([1, 2, 3]), chords=0)
            P, unknown = pi_set(kind_of)
            adj = {v: [] for v in range(len(m.atoms))}
            for a, b in ae:
                adj[a].append(b)
                adj[b].append(a)
            if not exact_pm(P, {v: [w for w in adj[v] if w in P] for v in P}):
                ctx.count("aromatic_not_kekulizable_skipped")
                continue
        else:
            els = ["C"] * 6 + ["N"] * 3 + ["O"] * 2 + ["S", "P", "B", "F", "Cl", "Br", "I"] + [rng.choice(EXTRA)] * 2
            m = random_tree_mol(rng, rng.choice([2, 4, 8, 15] * 8 + [80, 300]), elements=els, p_ring=0.2, p_double=0.3, p_triple=0.1,
                                p_bracket=0.35, p_chiral=rng.choice([0, 0.15, 0.3]), p_stereo=rng.choice([0, 0.1]), table=gen_table)
        if not m.atoms:
            continue
        try:
            s, order, _, _ = spell(m, rng)
        except ValueError:
            ctx.count("too_many_open_labels")
            continue
        payload = {"smiles": s, "table": table}
        try:
            mm = read_smiles(s)
        except SmilesSyntaxError as e:
            ctx.finding("generator-bug", payload, str(e))
            continue
        inv = {g: k for k, g in enumerate(order)}
        Pw = {inv[g] for g in P}
        val = mm.valences()
        viol = []
        margin = 99
        for a in mm.atoms:
            cap = capacity(table, a.element, a.charge)
            if a.aromatic:
                nar = sum(1 for (x, y), o in mm.bonds.items() if o == 1.5 and a.idx in (x, y))
                used = val[a.idx] - 0.5 * nar + (1 if a.idx in Pw else 0) + (a.hcount or 0)
            else:
                used = val[a.idx] + (a.hcount or 0)
            margin = min(margin, cap - used)
            if used > cap:
                viol.append(a.idx)
            key = a.element + ("%+d" % a.charge if a.charge else "")
            if key not in table:
                ctx.count("q_only_element_atoms")
            if a.charge:
                ctx.count("charged_atoms")
            if a.hcount:
                ctx.count("explicit_h_atoms")
        ctx.count("margin<0" if margin < 0 else ("margin=0" if margin == 0 else "margin>0"))
        ctx.see("margins", max(-3, min(3, int(margin))))
        before = cache_probe()
        r = call_guard(lambda: sf.encoder(s, strict=True), expected=(sf.EncoderError,))
        for mon, msg in MON.drain():
            ctx.finding("monitor-" + mon, payload, msg)
        ctx.count("judged")
        if aromatic:
            ctx.count("aromatic_judged")
        ctx.case((sorted(table.items()), s), len(mm.atoms) >= 3,
                 sample={"smiles": s, "violating_atoms": viol, "strict": r[0], "margin": margin})
        if r[0] == "esc":
            ctx.finding("escape:%s@%s" % (r[1], r[2]), payload, r[3])
            continue
        if (r[0] == "err") != bool(viol):
            ctx.finding("strict-accepts-violating-molecule" if viol else "strict-rejects-valid-molecule",
                        dict(payload, violating_atoms=viol), "strict=%s, independent count says violating atoms %r" % (r[0], viol))
        ctx.count("strict_rejects" if r[0] == "err" else "strict_accepts")
        r0 = call_guard(lambda: sf.encoder(s, strict=False), expected=(sf.EncoderError,))
        if r0[0] != "ok":
            ctx.finding("nonstrict-raises", payload, repr(r0)[:300])
            continue
        if r[0] == "ok" and r[1] != r0[1]:
            ctx.finding("strict-and-nonstrict-differ", payload, "%s vs %s" % (r[1][:200], r0[1][:200]))
        if r[0] == "ok":
            d = call_guard(lambda: sf.decoder(r[1]), expected=(sf.DecoderError,))
            if d[0] != "ok":
                ctx.finding("decoder-rejects-strict-output", payload, repr(d)[:200])
            else:
                mo_, st_out = read_decoder_output(d[1], lambda m_: compare_roundtrip(mm, m_, check_stereo=False))
                if st_out == "budget":
                    diff = None
                    ctx.count("segmentation_budget")
                elif mo_ is None:
                    diff = ("unreadable", "the decoder's output cannot be read")
                else:
                    diff = compare_roundtrip(mm, mo_, check_stereo=False)
                if diff:
                    ctx.finding("strict-output-decodes-to-different-molecule", dict(payload, output=d[1]), diff[1])
        # switch the table (capacity cache is warm) and encode again without strict
        mid = cache_probe()
        if mid["capacity"] and before["capacity"] and mid["capacity"][3] > 0:
            ctx.count("capacity_cache_warm_before_switch")
        K2 = tablegen.any_table(rng)
        try:
            sf.set_semantic_constraints(dict(K2))
        except ValueError:
            sf.set_semantic_constraints("octet_rule")
        ctx.count("table_switches")
        r1 = call_guard(lambda: sf.encoder(s, strict=False), expected=(sf.EncoderError,))
        if r1 != r0:
            ctx.finding("nonstrict-depends-on-table", dict(payload, table2=sf.get_semantic_constraints()),
                        "%r vs %r" % (r0[1][:200], repr(r1)[:200]))
        # and the strict verdict must follow the *new* table (stale capacity cache?)
        t2 = sf.get_semantic_constraints()
        viol2 = []
        for a in mm.atoms:
            cap = capacity(t2, a.element, a.charge)
            if a.aromatic:
                nar = sum(1 for (x, y), o in mm.bonds.items() if o == 1.5 and a.idx in (x, y))
                used = val[a.idx] - 0.5 * nar + (1 if a.idx in Pw else 0) + (a.hcount or 0)
            else:
                used = val[a.idx] + (a.hcount or 0)
            if used > cap:
                viol2.append(a.idx)
        r2 = call_guard(lambda: sf.encoder(s, strict=True), expected=(sf.EncoderError,))
        if r2[0] in ("ok", "err") and (r2[0] == "err") != bool(viol2):
            ctx.finding("strict-verdict-stale-after-table-switch", dict(payload, table2=t2, violating_atoms=viol2),
                        "after switching tables strict=%s, independent count says %r" % (r2[0], viol2))
    # non-strict encoding of aromatic inputs of every kind (hypervalent aromatic S / P included) under pairs of tables
    from vmon.aromgen import substituted_system, ANCHORED, EXOTIC
    extra = ["O=s1cccc1", "c1ccs(=O)cc1", "O=p1ccccc1", "c1ccp(=O)(C)cc1", "O=s1(=O)cccc1", "c1cc[se](=O)c1", "O=[n+]1ccccc1", "Cc1ccccc1"]
    for i in range(150 if quick else 4000):
        if i < len(extra):
            s = extra[i]
        else:
            m = rng.choice([lambda: standard_system(rng)[0], lambda: substituted_system(rng, EXOTIC)[0],
                            lambda: substituted_system(rng, ANCHORED)[0]])()
            s = spell(m, rng)[0]
        outs = []
        for K in ("default", "octet_rule", "hypervalent", tablegen.random_table(rng, caps=[1, 2, 2, 3, 4, 6], q=rng.choice([1, 2, 8]))):
            try:
                sf.set_semantic_constraints(K)
            except ValueError:
                continue
            outs.append(call_guard(lambda: sf.encoder(s, strict=False), expected=(sf.EncoderError,))[:2])
        ctx.count("nonstrict_aromatic_table_sets")
        ctx.case(("arom-nonstrict", s), True)
        if len(set(map(repr, outs))) > 1:
            ctx.finding("nonstrict-depends-on-table", {"smiles": s, "table": "default/octet_rule/hypervalent/random"},
                        "results under different tables: %r" % (outs,))
    for k, v in MON.counts.items():
        ctx.count(k, v)


def replay(ctx, payload):
    sf = env.load_selfies()
    sf.set_semantic_constraints(payload["table"])
    r = call_guard(lambda: sf.encoder(payload["smiles"], strict=True), expected=(sf.EncoderError,))
    r0 = call_guard(lambda: sf.encoder(payload["smiles"], strict=False), expected=(sf.EncoderError,))
    ctx.finding("replay-observation", payload, "strict=%r nonstrict=%r" % (r, r0))
