"""C02 - the decoder implements the published derivation exactly
(DESIGN.md section 5, C02): reference-model monitor at the API boundary."""
from vmon import env, hooks, scopes, tablegen
from vmon.hooks import MON, call_guard
from vmon.oracles import judge_output, compare_with_reference, F1_KEY
from vmon.refsem import (ref_decode, RefReject, tokens_with_dots, digits_for, INDEX_SYMBOLS,
                         ASSUMPTIONS as REF_ASSUMPTIONS)
from vmon.selfgen import LiveGen, mutate_symbols

ID = "C02"
LEVEL = "exploration"
RULE = ("every string of length <= L over four symbol sets (core/highcap/index/stereo, together containing every rule, "
        "every prefix, unknown symbols and the dot) under five tables is enumerated; beyond that live strings under "
        "random tables, mutated dataset strings, an index-sensitive family (chains of 20-4100 atoms followed by a ring or "
        "branch symbol with every digit in every position) and strings with an unclosed bracket. The molecule read from "
        "decoder(x) is compared with an independent reference derivation (atoms, bonds, orders, stereo marks, written "
        "neighbour order; acceptance). distinct = distinct (table, string); non-trivial = reference molecule has >= 3 "
        "atoms and at least one ring candidate or branch frame")
ASSUMPTIONS = ["the reference derivation (vmon/refsem.py) renders docs/source/derivation.rst; where the document is silent: "
               + "; ".join(REF_ASSUMPTIONS),
               "symbols containing 'eps' other than [epsilon], and non-ASCII digits, are not generated (documentation silent)"]


def shards(tier):
    return 16


def timeout(tier):
    return 1800 if tier == "quick" else 14400


def floors(tier):
    return {"compared": 100000, "rejected_both": 1000, "set:transitions": 25,
            "set:ref_transitions": 25, "index_family": 100, "unclosed": 50,
            "M3.next_ring_state": 1000, "f1_witness_seen": 1, "g2.compared": 1000, "flag_variants_compared": 5000}


class Judge(object):
    def __init__(self, ctx):
        self.ctx = ctx
        self.sf = env.varied(env.load_selfies(), ctx)
        self.table = None
        self.tname = None

    def set_table(self, name, table):
        self.table = tablegen.set_table_hostile(self.sf, table, self.ctx.rng, self.ctx)
        self.tname = name

    def one(self, x, src, flags_too=False):
        ctx, sf = self.ctx, self.sf
        payload = {"selfies": x if len(x) < 3000 else x[:3000] + "...", "table": self.table, "src": src}
        if len(x) >= 3000:
            payload["selfies_full"] = x
        r = call_guard(lambda: sf.decoder(x), expected=(sf.DecoderError,))
        for mon, msg in MON.drain():
            ctx.finding("monitor-" + mon, payload, msg)
        try:
            ref = ref_decode(x, self.table)
        except RefReject as e:
            ref = None
            rej = str(e)
        if r[0] == "esc":
            ctx.finding("escape:%s@%s" % (r[1], r[2]), payload, r[3])
            ctx.case((self.tname, x), False)
            return
        if r[0] == "err":
            if ref is not None:
                ctx.finding("rejects-derivable-string", payload, "decoder raises DecoderError, the reference derivation reaches no symbol outside the grammar")
            else:
                ctx.count("rejected_both")
            ctx.case((self.tname, x), False)
            return
        out = r[1]
        if ref is None:
            ctx.finding("accepts-unknown-symbol", dict(payload, output=out[:500]),
                        "decoder returns %r, the reference derivation reaches invalid symbol %s" % (out[:80], rej))
            ctx.case((self.tname, x), False)
            return
        if flags_too:
            # attribute=True and compatible=True (no legacy symbol is reached in an accepted string) return the same text
            for fl in ({"attribute": True}, {"compatible": True}, {"attribute": True, "compatible": True}):
                r2 = call_guard(lambda: sf.decoder(x, **fl), expected=(sf.DecoderError,))
                got = r2[1][0] if (r2[0] == "ok" and fl.get("attribute")) else (r2[1] if r2[0] == "ok" else None)
                ctx.count("flag_variants_compared")
                if got != out and not (fl.get("compatible") and any(t.endswith("expl]") or "_" in t or "Expl" in t for t in tokens_with_dots(x))):
                    ctx.finding("flags-change-the-molecule", dict(payload, flags=fl, output=out[:500]),
                                "decoder(x) = %r but decoder(x, %r) = %r" % (out[:200], fl, repr(r2)[:200]))
        status, mol, detail = judge_output(out, None, accept=lambda m: compare_with_reference(m, ref))
        ctx.count("compared")
        for t in ref.transitions:
            ctx.see("ref_transitions", t)
        if status == "ok":
            pass
        elif status == "f1":
            ctx.finding(F1_KEY, payload, detail)
        elif status == "budget":
            ctx.count("segmentation_budget")
        else:
            ctx.finding("derivation-%s" % status, dict(payload, output=out[:1500]), detail)
        nontrivial = len(ref.atoms) >= 3 and (ref.rings_queued + ref.max_nesting) >= 1
        if ref.rings_merged:
            ctx.count("ring_merged_into_bond")
        if ref.rings_dropped:
            ctx.count("ring_dropped")
        if ref.max_nesting >= 3:
            ctx.count("nesting>=3")
        ctx.case((self.tname, x), nontrivial,
                 sample={"table": self.tname, "selfies": x[:300], "smiles": out[:200]} if len(x) > 24 else None)
        return ref


def run(ctx):
    sf = env.varied(env.load_selfies(), ctx)
    hooks.attach_m1()
    hooks.attach_m2()
    hooks.attach_m3()
    j = Judge(ctx)
    quick = ctx.tier == "quick"
    rng = ctx.rng

    plan = [("core", 4 if quick else 5, ["default", "octet_rule", "hypervalent", "wide", "tight"]),
            ("highcap", 4 if quick else 5, ["wide", "tight"]),
            ("index", 4 if quick else 5, ["default"]),
            ("stereo", 4 if quick else 5, ["default", "hypervalent"])]
    for sname, L, tnames in plan:
        syms = scopes.SETS[sname]
        for tn in tnames:
            j.set_table(tn, scopes.TABLES[tn])
            for x in scopes.enumerate_scope(syms, L, ctx.shard, ctx.nshards):
                j.one(x, "G1:" + sname, flags_too=(sname == "index" and L <= 4 and "[nop]" in x))
    ctx.notes["g1"] = {s: {"max_len": L, "tables": t, "strings_per_table": scopes.scope_size(scopes.SETS[s], L)}
                       for s, L, t in plan}

    if ctx.shard == 0:
        j.set_table("default", tablegen.PRESETS["default"])
        j.one("[C][C][C][Ring1][Ring1]" * 100, "F1-witness")
        ctx.count("f1_witness_seen")

    # index-sensitive family: every digit in every position
    j.set_table("default", tablegen.PRESETS["default"])
    fam = []
    for L in (1, 2, 3):
        for pos in range(L):
            for d in range(16):
                fam.append((L, pos, d))
    fam = fam[ctx.shard::ctx.nshards]
    for L, pos, d in fam:
        q = d * 16 ** (L - 1 - pos)
        for extra in (0, rng.randrange(16 ** L)):
            qq = min(16 ** L - 1, q + (extra if pos else 0) % (16 ** (L - 1 - pos) or 1))
            n = min(4100, qq + rng.choice([1, 2, 5]))
            if n > 1500 and quick and rng.random() < 0.7:
                n = rng.randint(20, 400)
            ds = digits_for(qq, L)
            ring = "[C]" * n + "[%sRing%d]" % (rng.choice(["", "=", "", "#", "/-", "\\/"]), L) + "".join(ds) + "[O]"
            j.one(ring, "index-ring")
            br = "[S]" + "[%sBranch%d]" % (rng.choice(["", "=", "#"]), L) + "".join(ds) + "[C]" * n + "[O][F]"
            j.one(br, "index-branch")
            ctx.count("index_family", 2)

    # strings with an unclosed bracket: always DecoderError
    g0 = LiveGen(j.table, rng)
    for i in range(20 if quick else 300):
        x = g0.string(rng.choice([1, 2]), rng.choice([3, 10, 30]))
        frs = x.split(".")
        k = rng.randrange(len(frs))
        frs[k] = frs[k] + rng.choice(["[C", "[", "[=Ring1", "[C][N"])
        y = ".".join(frs)
        r = call_guard(lambda: sf.decoder(y), expected=(sf.DecoderError,))
        ctx.count("unclosed")
        ctx.case(("unclosed", y), False)
        if r[0] != "err":
            ctx.finding("accepts-unclosed-bracket" if r[0] == "ok" else "escape:%s@%s" % (r[1], r[2]),
                        {"selfies": y, "table": j.table}, repr(r)[:300])

    if ctx.shard % 4 == 2:
        # the rest of this shard runs in a process that has already decoded very many distinct symbols
        for k in range(140000):
            call_guard(lambda: sf.decoder("[%dC][O]" % k), expected=(sf.DecoderError,))
        ctx.count("soak_distinct_symbols", 140000)
    # G2 x G4
    for ti in range(25 if quick else 300):
        t = tablegen.any_table(rng)
        try:
            j.set_table("rand", t)
        except ValueError:
            ctx.count("table_rejected")
            continue
        g = LiveGen(j.table, rng, p_ring=rng.choice([0.1, 0.3, 0.5]), p_junk=rng.choice([0, 0, 0.01]),
                    max_depth=rng.choice([6, 12, 40]))
        for k in range(30):
            if k == 0 and ti % 6 == ctx.shard % 6:
                x = g.long_string(rng.choice([4200, 6000, 9000]))      # scale: one fragment of several thousand symbols
                ctx.count("g2.very_long")
            elif rng.random() < 0.1:
                x = g.string(1, rng.choice([300, 900]), ring_dense=True)
            elif rng.random() < 0.1:
                x = g.deep(rng.randint(2, 40) if rng.random() < 0.8 else rng.choice([120, 300]))
            else:
                x = g.string(rng.choice([1, 1, 2, 3, 3, 12, 40]), rng.choice([10, 40, 150, 600, 600, 2500]) if rng.random() < 0.8 else 8)
            if j.one(x, "G2", flags_too=True) is not None:
                ctx.count("g2.compared")

    # G3
    data = scopes.dataset_smiles(400 if quick else 4000)
    j.set_table("hypervalent+", dict(tablegen.PRESETS["hypervalent"], **{"P": 7, "P-1": 8, "P+1": 6, "?": 12}))
    pool = scopes.SETS["core"][:-1] + INDEX_SYMBOLS + ['[=O]', '[=Ring2]', '[Branch2]', '[nop]', '[epsilon]']
    for s in data[ctx.shard::ctx.nshards][: (100 if quick else 100000)]:
        r = call_guard(lambda: sf.encoder(s, strict=False), expected=(sf.EncoderError,))
        if r[0] != "ok":
            continue
        toks = tokens_with_dots(r[1])
        j.one(r[1], "G3:orig")
        for _ in range(2):
            x = "".join(mutate_symbols(toks, rng, pool))
            if ".." in x or x.startswith(".") or x.endswith("."):
                pass  # empty fragments are legal input
            j.one(x, "G3", flags_too=True)
            ctx.count("g3.cases")

    for t in MON.transitions:
        ctx.see("transitions", t)
    for k, v in MON.counts.items():
        ctx.count(k, v)
    for u in MON.unreached:
        ctx.see("unreached_monitors", u)


def replay(ctx, payload):
    hooks.attach_m1()
    hooks.attach_m2()
    hooks.attach_m3()
    j = Judge(ctx)
    j.set_table("replay", payload["table"])
    j.one(payload.get("selfies_full", payload["selfies"]), "replay")
