"""Exact perfect-matching decider and matching validator (independent of
selfies.utils.matching_utils)."""


def components(nodes, adj):
    nodes = list(nodes)
    inset = set(nodes)
    seen = set()
    comps = []
    for s in nodes:
        if s in seen:
            continue
        comp = []
        st = [s]
        seen.add(s)
        while st:
            v = st.pop()
            comp.append(v)
            for w in adj[v]:
                if w in inset and w not in seen:
                    seen.add(w)
                    st.append(w)
        comps.append(comp)
    return comps


def exact_pm(nodes, adj):
    """True iff the subgraph induced on `nodes` has a perfect matching.
    Bitmask DP per connected component (<= 26 nodes), networkx blossom
    beyond that."""
    for comp in components(nodes, adj):
        if len(comp) % 2:
            return False
        cs = set(comp)
        if len(comp) > 26:
            import networkx as nx
            g = nx.Graph()
            g.add_nodes_from(comp)
            for v in comp:
                for w in adj[v]:
                    if w in cs and w != v:
                        g.add_edge(v, w)
            m = nx.max_weight_matching(g, maxcardinality=True)
            if 2 * len(m) != len(comp):
                return False
            continue
        li = {v: i for i, v in enumerate(comp)}
        am = [0] * len(comp)
        for v in comp:
            for w in adj[v]:
                if w in li and w != v:
                    am[li[v]] |= 1 << li[w]
        memo = {}
        full = (1 << len(comp)) - 1
        # iterative DFS with memo to stay far from the recursion limit
        stack = [full]
        while stack:
            mask = stack[-1]
            if mask == 0:
                memo[0] = True
                stack.pop()
                continue
            if mask in memo:
                stack.pop()
                continue
            v = (mask & -mask).bit_length() - 1
            m = am[v] & mask & ~(1 << v)
            res = False
            need = None
            while m:
                w = (m & -m).bit_length() - 1
                sub = mask & ~(1 << v) & ~(1 << w)
                r = True if sub == 0 else memo.get(sub)
                if r is None:
                    need = sub
                    break
                if r:
                    res = True
                    break
                m &= m - 1
            if need is not None:
                stack.append(need)
                continue
            memo[mask] = res
            stack.pop()
        if not memo.get(full, False):
            return False
    return True


def is_bipartite(n, adj):
    col = [None] * n
    for s in range(n):
        if col[s] is not None:
            continue
        col[s] = 0
        st = [s]
        while st:
            v = st.pop()
            for w in adj[v]:
                if col[w] is None:
                    col[w] = 1 - col[v]
                    st.append(w)
                elif col[w] == col[v]:
                    return False
    return True


def judge_matching(graph, result):
    """graph: adjacency list; result: what find_perfect_matching returned.
    -> ('ok'|'false_none'|'invalid_matching'|'bad_shape', exists)"""
    n = len(graph)
    exists = exact_pm(range(n), {i: graph[i] for i in range(n)})
    if result is None:
        return ("ok" if not exists else "false_none"), exists
    if not isinstance(result, list) or len(result) != n:
        return "bad_shape", exists
    if any(j is None for j in result):
        return "incomplete_matching", exists      # some node left unmatched although a matching was returned
    for i in range(n):
        j = result[i]
        if not isinstance(j, int) or not (0 <= j < n) or j == i:
            return "invalid_matching", exists
        if result[j] != i or j not in graph[i]:
            return "invalid_matching", exists
    return "ok", exists
