"""Driver: shards a property's workload over worker subprocesses, aggregates
their logs, decides the three-valued verdict, writes evidence and replays."""
import argparse
import array
import collections
import importlib
import json
import os
import shutil
import subprocess
import sys
import time

from vmon import env, known
from vmon.harness import h64

EXIT_HELD, EXIT_VIOLATED, EXIT_INCONCLUSIVE = 0, 1, 2


def _max_notes(results):
    """Numeric notes of the shards (e.g. largest number of line events per input character, largest CPU time of one call)."""
    out = {}
    for r in results:
        for k, v in (r.get("notes") or {}).items():
            if isinstance(v, (int, float)) and not isinstance(v, bool):
                out[k] = max(out.get(k, v), v)
    return out


def _merge_counts(results):
    c = collections.Counter()
    for r in results:
        c.update(r.get("counters", {}))
    return c


def _distinct(files):
    n_files = [f for f in files if os.path.exists(f)]
    try:
        import numpy as np
        arrs = [np.fromfile(f, dtype=np.uint64) for f in n_files]
        if not arrs:
            return 0
        return int(np.unique(np.concatenate(arrs)).size)
    except ImportError:
        s = set()
        for f in n_files:
            a = array.array("Q")
            with open(f, "rb") as fh:
                a.frombytes(fh.read())
            s.update(a)
        return len(s)


def run_property(prop, tier, seed, replay=None, keep=False, quiet=False):
    t0 = time.time()
    prop = prop.upper()
    mod = importlib.import_module("vmon.props.%s" % prop.lower())
    if not env.ensure_deps():
        print("INCONCLUSIVE property=%s reason=dependencies could not be installed from %s" % (prop, env.WHEELS))
        return EXIT_INCONCLUSIVE
    rundir = os.path.join(env.WORK, "run-%s-%d" % (prop, os.getpid()))
    shutil.rmtree(rundir, ignore_errors=True)
    os.makedirs(rundir)
    os.makedirs(os.path.join(env.WORK, "nopyc"), exist_ok=True)
    os.makedirs(env.EVIDENCE, exist_ok=True)
    os.makedirs(env.REPLAYS, exist_ok=True)

    if replay:
        nshards = 1
    else:
        nshards = mod.shards(tier) if hasattr(mod, "shards") else 16
        nshards = max(1, min(nshards, int(os.environ.get("VMON_MAX_SHARDS", "16"))))
    timeout = mod.timeout(tier) if hasattr(mod, "timeout") else (1800 if tier == "quick" else 14400)
    timeout = int(os.environ.get("VMON_TIMEOUT", timeout))

    procs = []
    for i in range(nshards):
        out = os.path.join(rundir, "%s-%d.json" % (prop, i))
        if replay:
            cmd = [env.PYTHON, "-X", "faulthandler", "-m", "vmon.worker", prop, "--replay", os.path.abspath(replay), out]
        else:
            cmd = [env.PYTHON, "-X", "faulthandler", "-m", "vmon.worker", prop, tier, str(seed), str(i), str(nshards), out]
        log = open(out + ".log", "w")
        p = subprocess.Popen(cmd, env=env.child_env(hashseed=i % 5, extra={"VMON_RUNDIR": rundir}),
                             stdout=log, stderr=subprocess.STDOUT, cwd=env.ROOT,
                             start_new_session=True)
        procs.append((i, p, out, log))

    inconclusive = []
    deadline = t0 + timeout
    for i, p, out, log in procs:
        try:
            rc = p.wait(timeout=max(1, deadline - time.time()))
        except subprocess.TimeoutExpired:
            try:
                os.killpg(p.pid, 9)
            except OSError:
                p.kill()
            p.wait()
            rc = None
            inconclusive.append("watchdog: shard %d exceeded %ds wall clock" % (i, timeout))
        log.close()
        if rc not in (0, None):
            tail = open(out + ".log").read()[-800:]
            inconclusive.append("shard %d died rc=%s: %s" % (i, rc, tail.replace("\n", " | ")))

    results = []
    for i, p, out, log in procs:
        if os.path.exists(out):
            results.append(json.load(open(out)))
        elif not any(("shard %d " % i) in s for s in inconclusive):
            inconclusive.append("shard %d wrote no result" % i)

    counters = _merge_counts(results)
    evaluations = sum(r["evaluations"] for r in results)
    distinct = _distinct([out + ".hashes" for _, _, out, _ in procs])
    sets = collections.defaultdict(set)
    for r in results:
        for k, v in r.get("sets", {}).items():
            sets[k].update(json.dumps(x, sort_keys=True) for x in v)
        inconclusive.extend(r.get("inconclusive", []))
    samples = []
    for r in results:
        for s in r.get("samples", []):
            if len(samples) < 8:
                samples.append(s)

    # ----------------------------------------------------------- findings
    merged = {}
    for r in results:
        for k, f in r.get("findings", {}).items():
            m = merged.setdefault(k, {"count": 0, "items": []})
            m["count"] += f["count"]
            m["items"].extend(f["items"])
    kf = known.load()
    known_lines, violations = [], []
    for k in sorted(merged):
        f = merged[k]
        entry = kf.match(prop, k)
        if entry is not None:
            known_lines.append((entry, f))
        else:
            violations.append((k, f))

    # ------------------------------------------------------------ ceilings
    # A known finding is a *rare* event of a specific mechanism.  If cases carrying a known key become far more
    # frequent than the mechanism can explain (ceiling = (denominator counter, max ratio)), that is reported as a
    # violation of its own, with one of the cases as the witness.
    ceilings = mod.ceilings(tier) if hasattr(mod, "ceilings") else {}
    for key, (den, ratio) in sorted(ceilings.items()):
        for e, f in list(known_lines):
            if e["key"] == key and counters.get(den, 0) > 0 and f["count"] > ratio * counters[den] and f["count"] >= 20:
                violations.append(("rate-anomaly:" + key, {"count": f["count"], "items": [
                    {"payload": it["payload"], "detail": "%d cases carry the known key %s for %d %s: rate %.4f exceeds the ceiling %.4f of the listed mechanism | %s" % (
                        f["count"], key, counters[den], den, f["count"] / float(counters[den]), ratio, it["detail"])}
                    for it in f["items"][:2]]}))

    # ----------------------------------------------------- floors / verdict
    floors = mod.floors(tier) if hasattr(mod, "floors") else {}
    view = dict(counters)
    view["evaluations"] = evaluations
    view["distinct_nontrivial"] = distinct
    for k, v in sets.items():
        view["set:" + k] = len(v)
    if not replay:
        for k, need in sorted(floors.items()):
            if view.get(k, 0) < need:
                inconclusive.append("floor not reached: %s=%d < %d" % (k, view.get(k, 0), need))
        if distinct < 2:
            inconclusive.append("fewer than 2 distinct non-trivial cases")

    # --------------------------------------------------------------- output
    replay_paths = []
    for k, f in violations:
        for it in f["items"][:3]:
            hid = "%016x" % h64(prop, k, it["payload"])
            rdir = env.REPLAYS if (os.environ.get("VMON_NO_EVIDENCE") is None and env.repo_path() == "/repo") \
                else os.path.join(env.WORK, "replays-scratch")
            os.makedirs(rdir, exist_ok=True)
            path = os.path.join(rdir, "%s-%s.json" % (prop, hid[:12]))
            with open(path, "w") as fh:
                json.dump({"property": prop, "key": k, "tier": tier, "seed": seed,
                           "payload": it["payload"], "detail": it["detail"]}, fh, indent=1)
            replay_paths.append((k, os.path.relpath(path, env.ROOT), it))

    nviol = sum(f["count"] for _, f in violations)
    cov = {
        "evaluations": int(evaluations),
        "distinct_nontrivial": int(distinct),
        "rule": getattr(mod, "RULE", ""),
        "samples": samples,
        "exhaustive": bool(getattr(mod, "EXHAUSTIVE", False)) and not replay,
        "shards": nshards,
        "monitor_counters": {k: int(v) for k, v in sorted(counters.items())},
        "maxima": _max_notes(results),
        "coverage_sets": {k: {"size": len(v), "members": sorted(v)[:60]} for k, v in sorted(sets.items())},
        "known_findings_observed": [
            {"id": e["id"], "key": e["key"], "cases": f["count"],
             "example": f["items"][0] if f["items"] else None} for e, f in known_lines],
        "violations_by_mechanism": {k: f["count"] for k, f in violations},
        "floors": floors,
        "inconclusive": inconclusive[:20],
        "verdict": "violated" if violations else ("inconclusive" if inconclusive else "held"),
        "explanation": getattr(mod, "EXPLANATION", ""),
    }
    if hasattr(mod, "summarize"):
        try:
            cov.update(mod.summarize(view, sets))
        except Exception as e:  # never let a cosmetic step decide anything
            cov["summarize_error"] = repr(e)
    evidence = {
        "property_id": prop, "tier": tier, "seed": int(seed),
        "level": getattr(mod, "LEVEL", "exploration"),
        "coverage": cov,
        "assumptions": list(getattr(mod, "ASSUMPTIONS", [])),
        "wall_s": round(time.time() - t0, 2),
        "violations": int(nviol),
    }
    scratch_tree = bool(os.environ.get("VMON_NO_EVIDENCE")) or env.repo_path() != "/repo"
    if not replay and not scratch_tree:   # evidence only ever describes runs against /repo itself
        with open(os.path.join(env.EVIDENCE, "%s.json" % prop), "w") as fh:
            json.dump(evidence, fh, indent=1, sort_keys=True)
            fh.write("\n")

    if not quiet:
        print("%s tier=%s seed=%s shards=%d evaluations=%d distinct_nontrivial=%d wall=%.1fs" % (
            prop, tier, seed, nshards, evaluations, distinct, time.time() - t0))
        top = ", ".join("%s=%d" % kv for kv in sorted(counters.items())[:40])
        print("  observed: " + top)
        for k, v in sorted(sets.items()):
            print("  coverage %s: %d distinct" % (k, len(v)))
    for e, f in known_lines:
        print("KNOWN-FINDING: property=%s %s %s (%d case(s) this run; e.g. %s)" % (
            prop, e["id"], e["what"], f["count"],
            json.dumps(f["items"][0]["payload"])[:160] if f["items"] else "-"))
    for k, path, it in replay_paths:
        print("VIOLATION property=%s replay=%s mechanism=%s detail=%s" % (
            prop, path, k, it["detail"].replace("\n", " | ")[:300]))
    if violations and not replay_paths:
        print("VIOLATION property=%s replay=%s" % (prop, "none"))
    if not keep:
        shutil.rmtree(rundir, ignore_errors=True)
    if violations:
        return EXIT_VIOLATED
    if inconclusive:
        for s in inconclusive[:10]:
            print("INCONCLUSIVE property=%s reason=%s" % (prop, s[:400]))
        return EXIT_INCONCLUSIVE
    print("HELD property=%s on %d executions (%d distinct non-trivial)" % (prop, evaluations, distinct))
    return EXIT_HELD


def main(argv=None):
    ap = argparse.ArgumentParser(prog="check")
    ap.add_argument("prop")
    ap.add_argument("--tier", default=os.environ.get("VERIF_TIER", "quick"), choices=["quick", "thorough"])
    ap.add_argument("--seed", type=int, default=int(os.environ.get("VERIF_SEED", "0") or 0))
    ap.add_argument("--replay")
    ap.add_argument("--keep", action="store_true")
    a = ap.parse_args(argv)
    return run_property(a.prop, a.tier, a.seed, replay=a.replay, keep=a.keep)


if __name__ == "__main__":
    sys.exit(main())
