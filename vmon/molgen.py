"""G5: random molecule graphs and random SMILES spellings of them.

A GMol is an abstract molecule: atoms (element, isotope, hcount|None, charge,
aromatic, chiral?) and bonds {(i,j): order in 1,2,3,1.5}.  `spell` writes one
of its many SMILES spellings (random root, random DFS order, random branch
order, ring digits shuffled at each atom, label policies, explicit '-',
ring-bond symbol on either or both ends, bracket spelling variants) and
returns the spelling plus the written atom order.  No selfies code is used.
"""

NORMAL_VALENCE = {"B": (3,), "C": (4,), "N": (3, 5), "O": (2,), "P": (3, 5),
                  "S": (2, 4, 6), "F": (1,), "Cl": (1,), "Br": (1,), "I": (1,)}
ORGANIC = ("B", "C", "N", "O", "S", "P", "F", "Cl", "Br", "I")


class GAtom(object):
    __slots__ = ("element", "isotope", "hcount", "charge", "aromatic",
                 "chiral", "kind")

    def __init__(self, element, isotope=None, hcount=None, charge=0,
                 aromatic=False, chiral=None, kind=None):
        self.element = element
        self.isotope = isotope
        self.hcount = hcount       # None => organic-subset atom, implicit H
        self.charge = charge
        self.aromatic = aromatic
        self.chiral = chiral       # None or True (tag chosen at spelling time)
        self.kind = kind


class GMol(object):
    def __init__(self):
        self.atoms = []
        self.bonds = {}
        self.stereo_bonds = set()  # bonds (i,j) that carry / or \ marks

    def add_atom(self, a):
        self.atoms.append(a)
        return len(self.atoms) - 1

    def add_bond(self, i, j, o):
        assert i != j and (min(i, j), max(i, j)) not in self.bonds
        self.bonds[(min(i, j), max(i, j))] = o

    def adj(self):
        out = [[] for _ in self.atoms]
        for (a, b) in self.bonds:
            out[a].append(b)
            out[b].append(a)
        return out

    def valence(self, i):
        return sum(o for (a, b), o in self.bonds.items() if i in (a, b))

    def valences(self):
        v = [0] * len(self.atoms)
        for (a, b), o in self.bonds.items():
            v[a] += o
            v[b] += o
        return v

    def components(self):
        adj = self.adj()
        seen = set()
        comps = []
        for s in range(len(self.atoms)):
            if s in seen:
                continue
            comp = []
            st = [s]
            seen.add(s)
            while st:
                v = st.pop()
                comp.append(v)
                for w in adj[v]:
                    if w not in seen:
                        seen.add(w)
                        st.append(w)
            comps.append(sorted(comp))
        return comps


def atom_text(a, rng, tag=None, variants=True, upper=False):
    """SMILES text of an atom; random among equivalent bracket spellings.  upper: aromatic atoms in upper case (the
    aromatic bonds are then all written ':')."""
    sym = a.element.lower() if (a.aromatic and not upper) else a.element
    bare_ok = (a.element in ("B", "C", "N", "O", "P", "S")) if a.aromatic else (a.element in ORGANIC)
    if a.hcount is None and a.isotope is None and a.charge == 0 and tag is None and bare_ok:
        return sym
    h = a.hcount or 0
    s = "["
    if a.isotope is not None:
        s += ("0" * rng.choice([1, 2]) if (variants and rng.random() < 0.15) else "") + str(a.isotope)
    s += sym
    if tag:
        s += tag
    if h == 1:
        s += rng.choice(["H", "H1"]) if variants else "H"
    elif h > 1:
        s += "H%d" % h
    elif variants and rng.random() < 0.1:
        s += "H0"
    c = a.charge
    if c:
        sign = "+" if c > 0 else "-"
        n = abs(c)
        forms = ["%s%d" % (sign, n), "%s0%d" % (sign, n)]
        if n == 1:
            forms.append(sign)
        if n <= 5:
            forms.append(sign * n)
        s += rng.choice(forms) if variants else forms[0]
    if variants and rng.random() < 0.05:
        s += ":%s%d" % (rng.choice(["", "", "0", "00"]), rng.randint(0, 99))
    return s + "]"


BOND_TEXT = {1: "", 2: "=", 3: "#", 1.5: ""}


def spell(mol, rng, label_mode=None, explicit_single=0.05, variants=True,
          ring_sym_side=None, mix_labels=False, roots=None, vrng=None, digits_after_branch=0.0, spanning="dfs",
          upper_colon=False):
    """Return (smiles, order, tags, marks): order[k] = gmol index of the k-th
    written atom; tags {gidx: '@'|'@@'}; marks {(gsrc,gdst): char written at
    src's side}."""
    adj = mol.adj()
    vrng = vrng or rng    # separate stream for equivalent-spelling choices (C10)
    label_mode = label_mode or rng.choice(["smallest", "fresh", "random", "percent"])
    order = []
    tags = {}
    marks = {}
    in_use = {}
    fresh = [0]
    visited = set()
    ring_side = {}

    def new_label():
        used = set(in_use.values())
        if label_mode == "smallest":
            for l in range(0 if rng.random() < 0.05 else 1, 100):
                if l not in used:
                    return l
        if label_mode == "fresh":
            fresh[0] += 1
            if fresh[0] < 100 and fresh[0] not in used:
                return fresh[0]
        if label_mode == "percent":
            cands = [l for l in range(10, 100) if l not in used]
            if cands:
                return rng.choice(cands)
        cands = [l for l in range(0, 100) if l not in used]
        if not cands:
            raise ValueError("more than 100 simultaneously open ring labels")
        return rng.choice(cands)

    def label_text(l):
        if l >= 10 or label_mode == "percent":
            return "%%%02d" % l
        if mix_labels and rng.random() < 0.3:
            return "%%%02d" % l
        return str(l)

    def plain_bond_text(i, j):
        o = mol.bonds[(min(i, j), max(i, j))]
        if o == 1.5:
            if upper_colon:
                return ":"          # Daylight's other spelling of an aromatic system: upper-case atoms, every bond ':'
            return ":" if (variants and vrng.random() < 0.03) else ""
        if o == 1:
            if mol.atoms[i].aromatic and mol.atoms[j].aromatic and not upper_colon:
                return "-"
            return "-" if rng.random() < explicit_single else ""
        return BOND_TEXT[o]

    comps = mol.components()
    if roots is None:
        rng.shuffle(comps)
    frag_texts = []
    for ci, comp in enumerate(comps):
        root = rng.choice(comp) if roots is None else roots[ci]
        parent = {root: None}
        children = {root: []}
        ring_bonds = []
        ring_keys = set()
        tree_order = [root]
        stack = [(root, iter(rng.sample(adj[root], len(adj[root]))))]
        visited.add(root)
        if spanning == "random":
            # any spanning tree, not only a depth-first one: a ring bond may then join two atoms none of which is an
            # ancestor of the other, and an atom may open a ring although nothing follows it in its own chain
            stack = []
            frontier = [root]
            comp_set = set(comp)
            while frontier:
                v = frontier.pop(rng.randrange(len(frontier)))
                nb = [w for w in adj[v] if w not in visited]
                rng.shuffle(nb)
                for w in nb:
                    if rng.random() < 0.7 or not frontier:
                        visited.add(w)
                        parent[w] = v
                        children[v].append(w)
                        children[w] = []
                        frontier.append(w)
                if any(w not in visited for w in adj[v]):
                    frontier.append(v)
            # written (pre-order) sequence and the non-tree edges
            tree_order = []
            st2 = [root]
            while st2:
                v = st2.pop()
                tree_order.append(v)
                for w in reversed(children[v]):
                    st2.append(w)
            seen_at = {v: k for k, v in enumerate(tree_order)}
            for v in tree_order:
                for w in adj[v]:
                    if parent.get(w) == v or parent.get(v) == w:
                        continue
                    key = (min(v, w), max(v, w))
                    if key not in ring_keys:
                        ring_keys.add(key)
                        a, b = (v, w) if seen_at[v] < seen_at[w] else (w, v)
                        ring_bonds.append((a, b))
        while stack:
            v, it = stack[-1]
            advanced = False
            for w in it:
                if w == parent[v]:
                    continue
                if w in visited:
                    key = (min(v, w), max(v, w))
                    if key not in ring_keys:
                        ring_keys.add(key)
                        ring_bonds.append((w, v))
                    continue
                visited.add(w)
                parent[w] = v
                children[v].append(w)
                children[w] = []
                tree_order.append(w)
                stack.append((w, iter(rng.sample(adj[w], len(adj[w])))))
                advanced = True
                break
            if not advanced:
                stack.pop()
        ring_at = {v: [] for v in tree_order}
        for (a, b) in ring_bonds:
            ring_at[a].append((a, b))
            ring_at[b].append((a, b))
        for v in ring_at:
            rng.shuffle(ring_at[v])
        text = []

        def write_atom(v):
            a = mol.atoms[v]
            tag = None
            if a.chiral:
                tag = rng.choice(["@", "@@"])
                tags[v] = tag
            text.append(atom_text(a, vrng, tag, variants, upper=upper_colon))

        def write_bond_symbol(i, j, ring=False, closing=False):
            key = (min(i, j), max(i, j))
            o = mol.bonds[key]
            if o == 1 and key in mol.stereo_bonds:
                if ring and rng.random() >= 0.7:
                    return          # this end carries no mark
                c = rng.choice("/\\")
                marks[(i, j)] = c
                text.append(c)
                return
            t = plain_bond_text(i, j)
            if not t:
                return
            if ring:
                both_arom = mol.atoms[i].aromatic and mol.atoms[j].aromatic
                side = ring_side.get(key)
                if side is None:   # decided once per ring bond, used at both ends
                    side = ring_side[key] = ring_sym_side or rng.choice(["open", "close", "both"])
                if t == "-" and both_arom and ring_sym_side is None and rng.random() < 0.4:
                    side = "both"   # a single bond between aromatic atoms: '-' on either digit (or both) says so
                if side == "both" or (side == "open" and not closing) or (side == "close" and closing):
                    text.append(t)
                return
            text.append(t)

        wstack = [("atom", root, None)]
        while wstack:
            item = wstack.pop()
            if item[0] == "text":
                text.append(item[1])
                continue
            if item[0] == "ring":
                _, v, key = item
                a, b = key
                other = a if v == b else b
                if key in in_use:
                    l = in_use[key]
                    write_bond_symbol(v, other, ring=True, closing=True)
                    text.append(label_text(l))
                    del in_use[key]
                else:
                    l = new_label()
                    in_use[key] = l
                    write_bond_symbol(v, other, ring=True, closing=False)
                    text.append(label_text(l))
                continue
            _, v, par = item
            if par is not None:
                write_bond_symbol(par, v)
            write_atom(v)
            order.append(v)
            ch = children[v]
            units = [[("ring", v, key)] for key in ring_at[v]]
            branches = [[("text", "("), ("atom", w, v), ("text", ")")] for w in ch[:-1]]
            if branches and units and rng.random() < digits_after_branch:
                # non-standard but accepted: ring-closure digits written after (some) branches
                units = units + branches
                rng.shuffle(units)
            else:
                units = units + branches
            all_paren = False
            if ch and ring_at[v] and digits_after_branch and rng.random() < 0.35 * digits_after_branch:
                # every neighbour in parentheses and a ring digit at the very end: X(...)(...)1 - the chain ends here
                all_paren = True
                rings_u = [[("ring", v, key)] for key in ring_at[v]]
                last_ring = rings_u.pop(rng.randrange(len(rings_u)))
                units = rings_u + [[("text", "("), ("atom", w, v), ("text", ")")] for w in ch]
                rng.shuffle(units)
                units.append(last_ring)
            items = [it for u in units for it in u]
            if ch and not all_paren:
                items.append(("atom", ch[-1], v))
            for it in reversed(items):
                wstack.append(it)
        frag_texts.append("".join(text))
    return ".".join(frag_texts), order, tags, marks


def table_capacity(table, a):
    key = a.element
    if a.charge:
        key += "%+d" % a.charge
    c = table[key] if key in table else table["?"]
    return c - (a.hcount or 0)


def random_tree_mol(rng, n, elements=None, p_ring=0.15, p_double=0.2, p_triple=0.05,
                    p_bracket=0.15, p_chiral=0.15, p_stereo=0.1, ncomp=1, table=None,
                    chiral_elements=("C", "N", "P", "S", "Si", "B"), p_hatom=0.03):
    """Valence-respecting random molecule (tree + ring closures).  p_hatom: hydrogens written as atoms of their own
    ([H], [2H], [3H]) on atoms with room left."""
    elements = elements or ["C"] * 8 + ["N"] * 3 + ["O"] * 2 + ["S", "P", "B", "F", "Cl", "Br", "I"]
    m = GMol()
    cap = {}
    val = {}

    def capof(a):
        if table is not None:
            return table_capacity(table, a)
        c = NORMAL_VALENCE.get(a.element, (4,))[0]
        if a.charge:
            c = max(0, c + (a.charge if a.element in ("N", "O", "P", "S") else -abs(a.charge)))
        return c - (a.hcount or 0)

    for comp in range(ncomp):
        k = max(1, n // ncomp)
        base = len(m.atoms)
        for i in range(k):
            a = GAtom(rng.choice(elements))
            if rng.random() < p_bracket:
                a.hcount = rng.choice([0, 0, 1, 1, 2])
                if rng.random() < 0.4:
                    a.charge = rng.choice([1, -1, 1, -1, 1, -1, 2, 2, -2, 3, -3, 4])
                if rng.random() < 0.2:
                    a.isotope = rng.choice([2, 13, 14, 15, 18, 0, 125, 300, 999])
            c = capof(a)
            if c < (0 if i == 0 else 1):
                a = GAtom("C")
                c = capof(a)
                if c < 1:
                    continue
            idx = m.add_atom(a)
            cap[idx] = c
            val[idx] = 0
            if idx > base:
                cands = [j for j in range(base, idx) if cap[j] - val[j] >= 1]
                if not cands:
                    continue
                j = rng.choice(cands[-6:]) if rng.random() < 0.7 else rng.choice(cands)
                room = min(cap[j] - val[j], cap[idx])
                o = 1
                x = rng.random()
                if x < p_triple and room >= 3:
                    o = 3
                elif x < p_triple + p_double and room >= 2:
                    o = 2
                m.add_bond(j, idx, o)
                val[j] += o
                val[idx] += o
        nr = sum(1 for _ in range(k) if rng.random() < p_ring)
        for _ in range(nr):
            cands = [j for j in range(base, len(m.atoms)) if cap[j] - val[j] >= 1]
            if len(cands) < 2:
                break
            a, b = rng.sample(cands, 2)
            if (min(a, b), max(a, b)) in m.bonds:
                continue
            room = min(cap[a] - val[a], cap[b] - val[b])
            o = 2 if (room >= 2 and rng.random() < 0.15) else 1
            m.add_bond(a, b, o)
            val[a] += o
            val[b] += o
    if p_hatom:
        for j in range(len(m.atoms)):
            while cap[j] - val[j] >= 1 and rng.random() < p_hatom:
                h = GAtom("H")
                h.isotope = rng.choice([None, None, None, 2, 3])
                if (table_capacity(table, h) if table is not None else 1) < 1:
                    break
                k = m.add_atom(h)
                cap[k], val[k] = 1, 1
                m.add_bond(j, k, 1)
                val[j] += 1
    adj = m.adj()
    for i, a in enumerate(m.atoms):
        nn = len(adj[i]) + (1 if (a.hcount or 0) == 1 else 0)
        wide = a.element in ("P", "S", "Si", "As", "Se") and nn in (5, 6)     # @/@@ on a hypervalent centre: accepted input
        if (nn in (3, 4) or wide) and (a.hcount or 0) <= 1 and rng.random() < p_chiral and a.element in chiral_elements + ("As", "Se"):
            a.chiral = True
            if a.hcount is None:
                # a chiral atom is a bracket atom: make its H count explicit
                a.hcount = max(0, min(1, cap[i] - val[i])) if nn == 3 and rng.random() < 0.5 else 0
    for key, o in m.bonds.items():
        if o == 1 and rng.random() < p_stereo:
            m.stereo_bonds.add(key)
    return m


def macrocycle(rng, ring_size, tail=2, branch_len=0, elements=("C", "C", "C", "N", "O", "S")):
    """A ring of `ring_size` atoms (ring span = index length 1, 2 or 3 symbols)
    with an optional long branch of `branch_len` atoms and a short tail."""
    m = GMol()
    for i in range(ring_size):
        m.add_atom(GAtom("C" if i in (0, ring_size - 1) else rng.choice(elements)))
        if i:
            m.add_bond(i - 1, i, 1)
    m.add_bond(0, ring_size - 1, 1)
    prev = 0
    for i in range(branch_len):
        k = m.add_atom(GAtom("C"))
        m.add_bond(prev if i else 0, k, 1)
        prev = k
    prev = ring_size - 1
    for i in range(tail):
        k = m.add_atom(GAtom(rng.choice(("C", "O", "N"))))
        m.add_bond(prev, k, 1)
        prev = k
    return m


def from_read(rm, keep_stereo=False):
    """GMol from a molecule read by the independent reader (for re-spelling
    dataset molecules)."""
    g = GMol()
    for a in rm.atoms:
        g.add_atom(GAtom(a.element, isotope=a.isotope, hcount=a.hcount if a.bracket else None,
                         charge=a.charge, aromatic=a.aromatic, chiral=None))
    for (i, j), o in rm.bonds.items():
        g.add_bond(i, j, o)
    return g


def symbol_family_smiles(rng):
    """SMILES that make the encoder emit every ring-symbol kind (plain, =, #, and the eight stereo prefixes) and every
    branch-symbol kind (plain, =, #) with index lengths 1, 2 and 3.  Written directly, so that the ring span / branch
    length is exact.  Yields (smiles, tag)."""
    spans = [3, 5, 14, 15, 16, 17, 30, 254, 255, 256, 257, 258, 300]
    for n in spans:
        body = "C" * n
        yield "C1" + body + "C1", "ring:-:%d" % n
        yield "C=1" + body + "C=1", "ring:=both:%d" % n
        yield "C=1" + body + "C1", "ring:=open:%d" % n
        yield "C1" + body + "C=1", "ring:=close:%d" % n
        yield "C#1" + body + "C#1", "ring:#:%d" % n
        for lm in ("/", "\\", ""):
            for rm in ("/", "\\", ""):
                if not lm and not rm:
                    continue
                yield "F/C=C%s1%sC%s1=C/F" % (lm, body, rm), "ring:stereo%s%s:%d" % (lm or "-", rm or "-", n)
    for n in [1, 2, 15, 16, 17, 18, 255, 256, 257, 258, 300]:
        for b in ("", "=", "#"):
            head = {"": "N", "=": "C", "#": "S"}[b]
            first = {"": "C", "=": "C", "#": "C"}[b]
            yield "%s(%s%s%s)O" % (head, b, first, "C" * (n - 1)), "branch:%s:%d" % (b or "-", n)
