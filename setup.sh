#!/bin/bash
# Offline setup: third-party helpers from the local wheelhouse into ./.deps
# (git-ignored), then a short self-test of the framework.
set -e
here="$(cd "$(dirname "${BASH_SOURCE[0]}")" && pwd)"
cd "$here"
export PIP_NO_INDEX=1 PYTHONDONTWRITEBYTECODE=1
PY="${VMON_PYTHON:-/venv/bin/python}"
mkdir -p .deps work evidence replays
if [ ! -d .deps/icontract ] || [ ! -d .deps/networkx ] || [ ! -d .deps/atheris ]; then
  "$PY" -m pip install --quiet --no-index --find-links /opt/veriftools/wheels \
      --target .deps --upgrade icontract networkx atheris
fi
PYTHONPATH="$here:$here/.deps" "$PY" -m vmon.selftest
