"""pytest plugin: attach the in-call monitors M1-M4 while the repository's own
test suite runs (DESIGN.md section 7).  A monitor that fires there is either
too strict or has found a defect the tests do not assert.

  cd /repo && PYTHONPATH=/verif:/verif/.deps /venv/bin/python -m pytest -q -p no:cacheprovider \
        -p vmon.pytest_plugin tests/test_selfies.py tests/test_specific_cases.py tests/test_selfies_utils.py
"""
import json
import os


def pytest_configure(config):
    from vmon import env, hooks
    sf = env.load_selfies()
    hooks.attach_m1()
    hooks.attach_m1_encoder()
    hooks.attach_m2(table_fn=sf.get_semantic_constraints)
    hooks.attach_m3()
    hooks.attach_m4(keep_log=False)


def pytest_sessionfinish(session, exitstatus):
    from vmon.hooks import MON
    res = {"counts": dict(MON.counts), "pending": MON.pending[:10], "unreached": sorted(MON.unreached),
           "transitions": len(MON.transitions), "exitstatus": int(exitstatus)}
    out = os.environ.get("VMON_PLUGIN_OUT")
    if out:
        with open(out, "w") as fh:
            json.dump(res, fh, indent=1)
    print("\nVMON monitors under the repository's tests: %d violations; counts %s" % (
        MON.counts.get("M1.violations", 0) + MON.counts.get("M2.violations", 0) + MON.counts.get("M3.violations", 0)
        + MON.counts.get("M4.violations", 0), {k: v for k, v in sorted(MON.counts.items()) if "." in k}))
