"""Monitors M1-M9 (DESIGN.md section 3).  All wrappers are transparent: they
return the wrapped result and re-raise the wrapped exception.  A monitor that
sees a violation *records* it (Monitors.pending); the property's boundary
code drains the list after every API call.  Every wrapper counts its
evaluations; a monitor whose attachment point has disappeared is reported as
'unreached' and the property is still decided at the API boundary."""
import collections
import os
import sys
import threading
import time
import traceback

from vmon import env
from vmon.matching import judge_matching, is_bipartite
from vmon.smiles_reader import (read_smiles, read_segmented, has_long_percent_run,
                                SmilesSyntaxError, SegmentationBudget)


class Monitors(object):
    def __init__(self):
        self.counts = collections.Counter()
        self.pending = []          # (monitor, message)
        self.unreached = set()
        self.match_log = []        # per-call records of M4 (drained by C05)
        self.token_log = []        # M6
        self.transitions = set()   # M3 (rule, state)
        self.table_fn = None
        self.enabled = True

    def flag(self, monitor, msg):
        self.counts[monitor + ".violations"] += 1
        if len(self.pending) < 50:
            self.pending.append((monitor, msg))

    def drain(self):
        p = self.pending
        self.pending = []
        return p


MON = Monitors()


def _mods():
    return env.mods()


# --------------------------------------------------------------------- M1
def _capacity(table, element, charge):
    key = element
    if charge:
        key += "%+d" % charge
    return table[key] if key in table else table["?"]


def recount_graph(mol, table=None, mon=MON):
    """Full recount of a MolecularGraph at a quiescent point."""
    try:
        atoms, bd, adj, counts = mol._atoms, mol._bond_dict, mol._adj_list, mol._bond_counts
    except AttributeError:
        mon.unreached.add("M1.recount")
        return
    n = len(atoms)
    sums = [0] * n
    seen = set()
    for (a, b), bond in bd.items():
        if a == b:
            mon.flag("M1", "self bond on atom %d" % a)
            continue
        if bond.src != a or bond.dst != b:
            mon.flag("M1", "bond stored under wrong key %r" % ((a, b),))
        key = (a, b) if a < b else (b, a)
        if bond.ring_bond:
            rev = bd.get((b, a))
            if rev is None or rev.order != bond.order or not rev.ring_bond:
                mon.flag("M1", "ring bond %r not stored symmetrically" % (key,))
        else:
            if not a < b:
                mon.flag("M1", "chain bond with src >= dst %r" % ((a, b),))
            if (b, a) in bd:
                mon.flag("M1", "chain bond stored in both directions %r" % (key,))
        if key in seen:
            continue
        seen.add(key)
        if 0 <= a < n and 0 <= b < n:
            sums[a] += bond.order
            sums[b] += bond.order
        else:
            mon.flag("M1", "bond %r refers to a missing atom" % (key,))
    for i in range(n):
        if abs(sums[i] - counts[i]) > 1e-9:
            mon.flag("M1", "bond_count[%d]=%r but incident orders sum to %r" % (i, counts[i], sums[i]))
        outs = [x for x in adj[i] if x is not None]
        if len(set(id(x) for x in outs)) != len(outs):
            mon.flag("M1", "bond listed twice in adjacency of atom %d" % i)
        for x in outs:
            if x.src != i:
                mon.flag("M1", "adjacency of %d holds a bond of atom %d" % (i, x.src))
            elif bd.get((x.src, x.dst)) is not x:
                mon.flag("M1", "adjacency bond %d-%d not in bond dict" % (x.src, x.dst))
        if atoms[i].index != i:
            mon.flag("M1", "atom %d carries index %r" % (i, atoms[i].index))
        if table is not None:
            a = atoms[i]
            cap = _capacity(table, a.element, a.charge) - (a.h_count or 0)
            if sums[i] > cap:
                mon.flag("M1", "atom %d (%s%+d H%s) has %r bonds, capacity %r" % (
                    i, a.element, a.charge, a.h_count, sums[i], cap))
    mon.counts["M1.recounts"] += 1


def attach_m1(mon=MON):
    mg = _mods()["mol_graph"]
    cls = getattr(mg, "MolecularGraph", None)
    if cls is None:
        mon.unreached.add("M1")
        return False

    def wrap(name, post):
        orig = getattr(cls, name, None)
        if orig is None:
            mon.unreached.add("M1." + name)
            return

        def w(self, *a, **k):
            r = orig(self, *a, **k)
            if mon.enabled:
                mon.counts["M1." + name] += 1
                try:
                    post(self, a, k, r)
                except Exception:
                    mon.flag("M1", "monitor error in %s: %s" % (name, traceback.format_exc(limit=2)))
            return r
        w.__wrapped__ = orig
        setattr(cls, name, w)

    def post_add_bond(self, a, k, r):
        src = k.get("src", a[0] if a else None)
        dst = k.get("dst", a[1] if len(a) > 1 else None)
        if src == dst:
            mon.flag("M1", "add_bond self bond %r" % src)
        b = self._bond_dict.get((src, dst))
        if b is None or b.ring_bond:
            mon.flag("M1", "add_bond(%r,%r) left no chain bond" % (src, dst))

    def post_add_ring(self, a, k, r):
        x = k.get("a", a[0] if a else None)
        y = k.get("b", a[1] if len(a) > 1 else None)
        if x == y:
            mon.flag("M1", "add_ring_bond self bond %r" % x)
        f, g = self._bond_dict.get((x, y)), self._bond_dict.get((y, x))
        if f is None or g is None or f.order != g.order or not (f.ring_bond and g.ring_bond):
            mon.flag("M1", "add_ring_bond(%r,%r) not symmetric" % (x, y))
        if sum(1 for e in self._adj_list[x] if e is f) != 1 or sum(1 for e in self._adj_list[y] if e is g) != 1:
            mon.flag("M1", "add_ring_bond(%r,%r) adjacency multiplicity" % (x, y))

    def post_update(self, a, k, r):
        x = k.get("a", a[0] if a else None)
        y = k.get("b", a[1] if len(a) > 1 else None)
        lo, hi = (x, y) if x < y else (y, x)
        f = self._bond_dict.get((lo, hi))
        g = self._bond_dict.get((hi, lo))
        if f is not None and g is not None and f.order != g.order:
            mon.flag("M1", "update_bond_order(%r,%r) left the two directions unequal" % (x, y))

    def post_add_atom(self, a, k, r):
        n = len(self._atoms)
        if not (len(self._adj_list) == len(self._bond_counts) == len(self._ring_bond_flags) == n):
            mon.flag("M1", "add_atom: parallel arrays out of step")

    wrap("add_atom", post_add_atom)
    wrap("add_bond", post_add_bond)
    wrap("add_ring_bond", post_add_ring)
    wrap("update_bond_order", post_update)
    return True


# --------------------------------------------------------------------- M2
def attach_m2(mon=MON, table_fn=None, check_valence=True):
    """Writer monitor on the name `mol_to_smiles` bound in selfies.decoder:
    M1 recount at entry (quiescent point), then the returned text re-read by
    the independent reader must be the graph handed in."""
    dec = _mods()["decoder"]
    orig = getattr(dec, "mol_to_smiles", None)
    if orig is None:
        mon.unreached.add("M2")
        return False

    def m2s(mol, attribute=False):
        if not mon.enabled:
            return orig(mol, attribute)
        table = table_fn() if (table_fn and check_valence) else None
        try:
            recount_graph(mol, table, mon)
        except Exception:
            mon.flag("M1", "monitor error in recount: " + traceback.format_exc(limit=2))
        res = orig(mol, attribute)
        try:
            smi = res[0] if attribute else res
            _judge_writer(mol, smi, mon)
        except Exception:
            mon.flag("M2", "monitor error: " + traceback.format_exc(limit=3))
        return res
    m2s.__wrapped__ = orig
    dec.mol_to_smiles = m2s
    return True


def _judge_writer(mol, smi, mon):
    mon.counts["M2.writes"] += 1
    want = {}
    for (a, b), bond in mol._bond_dict.items():
        want[(a, b) if a < b else (b, a)] = bond.order
    first_err = None
    try:
        err = _compare_graph(mol, read_smiles(smi), want)
        if err is None:
            return
        first_err = err
    except SmilesSyntaxError as e:
        first_err = "writer output unreadable (%s)" % e
    if has_long_percent_run(smi):
        # >= 100 ring labels: the text is ambiguous (F1); the standard read may fail or, by accident,
        # succeed as another molecule.  Judge through the segmentation search instead.
        mon.counts["M2.long_label_outputs"] += 1
        budget0 = mon.counts["M2.segmentation_budget"]
        for m in _segmented_iter(smi, mon):
            if _compare_graph(mol, m, want) is None:
                return
        if mon.counts["M2.segmentation_budget"] > budget0:
            return      # search cut short: inconclusive for this call, never a verdict
    mon.flag("M2", first_err + " :: " + smi[:160])


def _segmented_iter(smi, mon):
    try:
        for m in read_segmented(smi, max_parses=120):
            yield m
    except SegmentationBudget:
        mon.counts["M2.segmentation_budget"] += 1


def _compare_graph(mol, m, want):
    if len(m.atoms) != len(mol._atoms):
        return "writer changed the atom count %d -> %d" % (len(mol._atoms), len(m.atoms))
    if m.bonds != want:
        return "writer output bonds differ from the graph"
    for i, a in enumerate(m.atoms):
        g = mol._atoms[i]
        if (a.element, a.isotope, a.chirality, a.charge) != (g.element, g.isotope, g.chirality, g.charge):
            return "writer atom %d differs" % i
        exp = [x.dst for x in mol._adj_list[i]]
        got = [x for x in a.nbrs if x != "H"]
        par = [x for x in got if x < i and (x, i) in mol._bond_dict and not mol._bond_dict[(x, i)].ring_bond]
        if got != par[:1] + exp:
            return "writer neighbour order at atom %d: got %r want %r" % (i, got, par[:1] + exp)
    return None


# --------------------------------------------------------------------- M3
def attach_m3(mon=MON, use_icontract=False):
    """Contracts on the three derivation-state functions, installed in
    selfies.grammar_rules and in selfies.decoder (from-import binding)."""
    gr = _mods()["grammar_rules"]
    dec = _mods()["decoder"]

    def post_atom(bond_order, bond_cap, state, result):
        mu, nxt = result
        ok = (0 <= mu <= min(bond_order, bond_cap)) and mu <= state and (state != 0 or mu == 0)
        ok = ok and nxt == ((bond_cap - mu) or None)
        # minimal reduction: mu is exactly the largest admissible order
        ok = ok and mu == (0 if state == 0 else min(bond_order, bond_cap, state))
        mon.transitions.add(("atom", min(state, 9)))
        return ok

    def post_branch(branch_type, state, result):
        bi, nxt = result
        mon.transitions.add(("branch", min(state, 9)))
        return bi == min(state - 1, branch_type) and bi >= 1 and nxt is not None and bi + nxt == state and nxt >= 1

    def post_ring(ring_type, state, result):
        o, nxt = result
        mon.transitions.add(("ring", min(state, 9)))
        return o == min(ring_type, state) and o >= 1 and (nxt or 0) + o == state and nxt != 0

    specs = [("next_atom_state", post_atom), ("next_branch_state", post_branch),
             ("next_ring_state", post_ring)]
    ok_any = False
    for name, post in specs:
        orig = getattr(gr, name, None)
        if orig is None:
            mon.unreached.add("M3." + name)
            continue
        if use_icontract:
            import icontract

            class ContractBroken(AssertionError):
                pass

            def mk(name, post, orig):
                checked = icontract.ensure(post, error=ContractBroken)(orig)

                def w(*a, **k):
                    mon.counts["M3." + name] += 1
                    try:
                        return checked(*a, **k)
                    except ContractBroken:
                        mon.flag("M3", "%s%r violated its post-condition" % (name, a))
                        return orig(*a, **k)
                return w
            w = mk(name, post, orig)
        else:
            def mk(name, post, orig):
                def w(*a):
                    r = orig(*a)
                    mon.counts["M3." + name] += 1
                    try:
                        if not post(*a, result=r):
                            mon.flag("M3", "%s%r -> %r violates its post-condition" % (name, a, r))
                    except Exception:
                        mon.flag("M3", "%s%r -> %r: monitor error" % (name, a, r))
                    return r
                return w
            w = mk(name, post, orig)
        w.__wrapped__ = orig
        setattr(gr, name, w)
        if getattr(dec, name, None) is orig:
            setattr(dec, name, w)
        else:
            mon.unreached.add("M3.decoder." + name)
        ok_any = True
    return ok_any


# --------------------------------------------------------------------- M4
def attach_m4(mon=MON, keep_log=True):
    mg = _mods()["mol_graph"]
    mu = _mods()["matching_utils"]
    orig = getattr(mg, "find_perfect_matching", None)
    if orig is None:
        mon.unreached.add("M4")
        return False

    def fpm(graph):
        try:
            g = [list(l) for l in graph]
        except Exception:
            g = None
        exc = None
        mon.search_depth = 0
        try:
            r = orig(graph)
        except BaseException as e:
            exc = e
            r = None
        mon.counts["M4.calls"] += 1
        if getattr(mon, "search_depth", 0) >= 2:
            mon.counts["M4.calls_with_several_searches"] += 1
        if g is not None:
            try:
                if exc is not None:
                    verdict, exists = "raised:" + type(exc).__name__, None
                else:
                    verdict, exists = judge_matching(g, r if r is None else list(r))
                bip = is_bipartite(len(g), g)
                rec = {"n": len(g), "verdict": verdict, "exists": exists, "bipartite": bip,
                       "graph": g if len(g) <= 40 else None}
                mon.counts["M4." + verdict] += 1
                mon.counts["M4.bipartite" if bip else "M4.nonbipartite"] += 1
                if keep_log:
                    mon.match_log.append(rec)
            except Exception:
                mon.flag("M4", "monitor error: " + traceback.format_exc(limit=2))
        if exc is not None:
            raise exc
        return r
    fpm.__wrapped__ = orig
    mg.find_perfect_matching = fpm
    if mu is not None and getattr(mu, "find_perfect_matching", None) is orig:
        mu.find_perfect_matching = fpm
    return True


# --------------------------------------------------------------------- M5
def cache_probe():
    """Sizes / statistics of the memo layers and identity of the global table."""
    m = _mods()
    out = {}
    gr, bc, mg = m["grammar_rules"], m["bond_constraints"], m["mol_graph"]
    c = getattr(gr, "_PROCESS_ATOM_CACHE", None)
    out["atom_cache"] = len(c) if c is not None else None
    for name, fn in (("capacity", getattr(bc, "get_bonding_capacity", None)),
                     ("alphabet", getattr(bc, "get_semantic_robust_alphabet", None))):
        ci = getattr(fn, "cache_info", None)
        out[name] = tuple(ci()) if ci else None
    cur = getattr(bc, "_current_constraints", None)
    out["table_id"] = id(cur)
    out["table"] = dict(cur) if isinstance(cur, dict) else None
    # the global constraint state as the API reports it: table in force and the three presets
    try:
        out["reported"] = bc.get_semantic_constraints()
        out["presets"] = {name: bc.get_preset_constraints(name) for name in ("default", "octet_rule", "hypervalent")}
    except Exception as e:      # noqa - a probe never raises into the workload
        out["reported"] = out["presets"] = "probe failed: %r" % (e,)
    return out


# --------------------------------------------------------------------- M6
def attach_m6(mon=MON):
    dec = _mods()["decoder"]
    orig = getattr(dec, "split_selfies", None)
    if orig is None:
        mon.unreached.add("M6")
        return False

    def tap(s):
        mon.counts["M6.calls"] += 1
        rec = []
        mon.token_log.append(rec)
        for t in orig(s):
            rec.append(t)
            yield t
    tap.__wrapped__ = orig
    dec.split_selfies = tap
    return True


# --------------------------------------------------------------- M7 / M8
class StepLimit(BaseException):
    """Raised from the LINE callback when a call exceeds its step bound."""


class StepCounter(object):
    """sys.monitoring LINE counter restricted to code objects of the tree
    under test.  Logical steps, not wall clock."""
    TOOL = 2

    def __init__(self):
        self.mon = sys.monitoring
        self.count = 0
        self.limit = None
        self.root = env.repo_path() + os.sep
        self.active = False

    def start(self):
        m = self.mon
        m.use_tool_id(self.TOOL, "vmon-steps")
        m.register_callback(self.TOOL, m.events.PY_START, self._on_start)
        m.register_callback(self.TOOL, m.events.LINE, self._on_line)
        m.set_events(self.TOOL, m.events.PY_START)
        self.active = True

    def stop(self):
        if self.active:
            self.mon.set_events(self.TOOL, 0)
            self.mon.free_tool_id(self.TOOL)
            self.active = False

    def _on_start(self, code, offset):
        if code.co_filename.startswith(self.root):
            self.mon.set_local_events(self.TOOL, code, self.mon.events.LINE)
        return self.mon.DISABLE

    def _on_line(self, code, line):
        self.count += 1
        if self.limit is not None and self.count > self.limit:
            self.limit = None
            raise StepLimit()

    def run(self, fn, limit):
        """-> (outcome, steps).  outcome as in call_guard, or ('steplimit',)"""
        self.count = 0
        self.limit = limit
        try:
            r = call_guard(fn)
        except StepLimit:
            r = ("steplimit",)
        finally:
            self.limit = None
        return r, self.count


class YieldInjector(object):
    """sys.monitoring LINE callback that forces thread switches between
    statements of the code under test and counts switches seen there."""
    TOOL = 3

    def __init__(self, p, seed, focus=None, p_focus=0.3):
        import random
        self.mon = sys.monitoring
        self.p = p
        self.focus = focus          # file name fragment: statements of that file yield with probability p_focus
        self.p_focus = p_focus
        self.max_yields = 40000
        self.rng = random.Random(seed)
        self.root = env.repo_path() + os.sep
        self.last = None
        self.switches = 0
        self.lines = 0
        self.yields = 0
        self.active = False

    def start(self):
        m = self.mon
        m.use_tool_id(self.TOOL, "vmon-yield")
        m.register_callback(self.TOOL, m.events.PY_START, self._on_start)
        m.register_callback(self.TOOL, m.events.LINE, self._on_line)
        m.set_events(self.TOOL, m.events.PY_START)
        self.active = True

    def stop(self):
        if self.active:
            self.mon.set_events(self.TOOL, 0)
            self.mon.free_tool_id(self.TOOL)
            self.active = False

    def _on_start(self, code, offset):
        if code.co_filename.startswith(self.root):
            self.mon.set_local_events(self.TOOL, code, self.mon.events.LINE)
        return self.mon.DISABLE

    def _on_line(self, code, line):
        t = threading.get_ident()
        self.lines += 1
        if self.last != t:
            if self.last is not None:
                self.switches += 1
            self.last = t
        if self.yields >= self.max_yields:
            return            # logical budget: forced switches are capped per round
        p = self.p_focus if (self.focus and self.focus in code.co_filename) else self.p
        if self.rng.random() < p:
            self.yields += 1
            time.sleep(0)


# --------------------------------------------------------------------- M9
def innermost_repo_frame(exc):
    root = env.repo_path() + os.sep
    tb = traceback.extract_tb(exc.__traceback__)
    fr = [f for f in tb if f.filename.startswith(root)]
    if not fr:
        return "outside-repo"
    f = fr[-1]
    return "%s:%s" % (os.path.basename(f.filename), f.name)


def call_guard(fn, expected=()):
    """Run fn() at the API boundary.
    -> ('ok', value) | ('err', 'DecoderError') for expected exception types
     | ('esc', type name, innermost repo frame, message) for anything else."""
    try:
        return ("ok", fn())
    except StepLimit:
        raise
    except expected as e:
        return ("err", type(e).__name__)
    except BaseException as e:   # noqa - the boundary observes everything
        if isinstance(e, (KeyboardInterrupt, SystemExit)):
            raise
        return ("esc", type(e).__name__, innermost_repo_frame(e), str(e)[:200])


def attach_m1_encoder(mon=MON):
    """M1 at the encoder's quiescent point: full recount of the graph that
    smiles_to_mol returns (name bound in selfies.encoder)."""
    enc = _mods()["encoder"]
    orig = getattr(enc, "smiles_to_mol", None)
    if orig is None:
        mon.unreached.add("M1.encoder")
        return False

    def s2m(*a, **k):
        mol = orig(*a, **k)
        if mon.enabled:
            try:
                recount_graph(mol, None, mon)
                mon.counts["M1.encoder_graphs"] += 1
            except Exception:
                mon.flag("M1", "monitor error in encoder recount: " + traceback.format_exc(limit=2))
        return mol
    s2m.__wrapped__ = orig
    enc.smiles_to_mol = s2m
    return True


def attach_m4b(mon=MON):
    """Observability for the matching routine: counts the augmenting-path searches (the part of the kekulizer that
    only runs when the greedy matching is not perfect)."""
    mu = _mods()["matching_utils"]
    orig = getattr(mu, "_find_augmenting_path", None) if mu is not None else None
    if orig is None:
        mon.unreached.add("M4b")
        return False
    lock = threading.Lock()

    def fap(*a, **k):
        with lock:
            mon.counts["M4b.augmenting_path_searches"] += 1
            mon.search_depth = getattr(mon, "search_depth", 0) + 1
        return orig(*a, **k)
    fap.__wrapped__ = orig
    mu._find_augmenting_path = fap
    return True
