"""C18 - compatible=True is a conservative extension for pre-v2 symbols."""
from vmon import env, tablegen
from vmon.hooks import call_guard
from vmon.hostile import LEGACY
from vmon.legacy import modernize, is_legacy, TABLE
from vmon.refsem import ref_decode, RefReject, tokens_with_dots, classify
from vmon.selfgen import LiveGen

ID = "C18"
LEVEL = "exploration"
RULE = ("mixes of modern symbols and every legacy form ([BranchL_M] and [Expl=/#///\\RingL] for all L, M in 1..3; [..expl] atoms in all "
        "SMILES bracket spellings: ++/--/+2 charges, H/H1/H0, isotopes, chirality, atom classes, bond prefixes; aromatic and invalid "
        "expl symbols) with legacy symbols placed where they are reached in a live state (after a high-capacity atom) as well as at "
        "random positions; decoder(x, compatible=True) must equal decoder(modernise(x)) with the harness's own moderniser; without "
        "legacy symbols the flag must change nothing; without the flag a reached legacy symbol must raise DecoderError (reached = the "
        "reference derivation of the modernised string reads that position). distinct = distinct string; non-trivial = >= 1 legacy symbol reached")
ASSUMPTIONS = ["the documented modern equivalents: [BranchL_M] -> [(''|=|#)BranchL], [Expl=RingL] -> [=RingL], [Expl#RingL] -> [#RingL], "
               "[Expl/RingL] -> [//RingL], [Expl\\\\RingL] -> [\\\\\\\\RingL], [<atom>expl] -> standard spelling of the bracket atom",
               "legacy atoms are spelled as valid SMILES bracket atoms (lower-case non-aromatic letters are outside the quantifier)"]
ATOMS_EXPL = ['C@@H', 'C@H', 'N+', 'O-', 'Fe++', 'Fe+2', 'N+1', 'C', 'CH', 'CH1', 'CH2', 'CH0', '13CH2', '13C', 'S+', 'H', 'N', 'B-',
              'N--', 'O--', 'Cu+2', 'Fe+++', 'Fe+3', 'C@@', 'C@', 'C:1', 'CH3:12', '2H', 'Se', 'Si', 'NH4+', 'C-', 'C+0', '0C', 'OH-',
              'P@@', 'Na+', 'Cl-', 'Br', 'I+3', 'Zn+2', 'NH+', 'NH2+', 'NH+1', 'CH-1', 'C@H+1', 'NH3+1', 'OH+1', 'CH2-1', 'C@@H-',
              'NH+2', 'BH-1', 'SH+', 'PH+1', '13CH+1', 'NH:2', 'CH+:3', 'SH3', 'PH4', 'SH5', 'PH5', 'ClH2', 'IH4', 'NH4', 'CH5', 'OH3', 'BH4', 'nH', 'c', 'se', 'Xx', 'C@@@', 'C+-', 'CH12', '', 'C++2']
MODERN = ['[C]', '[=C]', '[N]', '[O]', '[F]', '[C@@H1]', '[N+1]', '[epsilon]', '[nop]', '[S]', '[P]', '[=S]', '[C]', '[C]', '[S]',
          '[#N]', '[=O]', '[Cl]', '[13CH2]', '[Fe+2]', '[/C]', '[\\C]', '[O-1]']
# every modern branch / ring symbol: the flag must not touch any of them
for _L in "123":
    for _p in ("", "=", "#"):
        MODERN += ["[%sBranch%s]" % (_p, _L), "[%sRing%s]" % (_p, _L)]
    for _p in ("-/", "/-", "\\/", "//", "\\\\", "-\\", "\\-", "/\\"):
        MODERN.append("[%sRing%s]" % (_p, _L))


def shards(tier):
    return 16


def floors(tier):
    return {"strings": 5000, "with_legacy": 3000, "legacy_reached": 2000, "no_legacy": 500, "rejected_without_flag": 1500,
            "set:legacy_branch_ring_forms": 21, "set:expl_atoms": 40, "with_empty_fragment": 300, "vocabulary_built_on_library_alphabet": 1000, "with_long_padding_run": 400}


def all_legacy(rng):
    x = rng.random()
    if x < 0.35:
        return rng.choice(sorted(TABLE))
    pre = rng.choice(['', '', '', '=', '#', '/', '\\'])
    return "[%s%sexpl]" % (pre, rng.choice(ATOMS_EXPL))


def run(ctx):
    sf = env.varied(env.load_selfies(), ctx)
    rng = ctx.rng
    quick = ctx.tier == "quick"

    def out(x, **k):
        r = call_guard(lambda: sf.decoder(x, **k), expected=(sf.DecoderError,))
        return r[:2] if r[0] != "esc" else r[:3]

    for it in range(2000 if quick else 150000):
        if it % 40 == 0:
            sf.set_semantic_constraints(rng.choice(["default", "hypervalent", "octet_rule", {"?": 6, "C": 4, "N": 3}, {"?": 1}, {"?": 12}]))
            table = sf.get_semantic_constraints()
        n = rng.randint(1, 16) if it % 50 else rng.choice([200, 800, 2500])      # archived data sets hold long strings too
        toks = []
        for _ in range(n):
            y = rng.random()
            if y < 0.55:
                toks.append(rng.choice(MODERN))
            elif y < 0.9:
                toks.append(all_legacy(rng))
            else:
                # a legacy symbol right after a high-capacity atom, so that it is reached in a live state
                toks += [rng.choice(['[S]', '[P]', '[C]']), all_legacy(rng)]
        if rng.random() < 0.15:
            toks.insert(rng.randrange(len(toks) + 1), ".")
        if it % 40 == 7:
            # fixed-width archives: a long run of padding somewhere inside the string
            toks.insert(rng.randrange(len(toks) + 1), "[nop]" * rng.choice([300, 1024, 2100, 5000]))
            ctx.count("with_long_padding_run")
        if rng.random() < 0.06:
            toks.insert(rng.randrange(len(toks) + 1), "..")      # an empty fragment: legal decoder input
            ctx.count("with_empty_fragment")
        x = "".join(toks)
        toks = tokens_with_dots(x)
        mod = [modernize(t) if t != "." else t for t in toks]
        y = "".join(mod)
        legacy_pos = [i for i, t in enumerate(toks) if t != "." and is_legacy(t)]
        payload = {"selfies": x, "modernised": y, "table": table}
        ctx.count("strings")
        if rng.random() < 0.12:
            # what a caller with an archived data set does around the decode: a vocabulary built from the library's
            # alphabet plus the data set's own (legacy) symbols, and the utilities on the raw string
            vocab = sf.get_semantic_robust_alphabet()
            vocab.update(t for t in toks if t != ".")
            call_guard(lambda: sf.get_alphabet_from_selfies([x]))
            call_guard(lambda: sf.len_selfies(x))
            ctx.count("vocabulary_built_on_library_alphabet")
        a = out(x, compatible=True)
        b = out(y)
        if a[0] == "esc" or b[0] == "esc":
            ctx.finding("escape:%s" % (a if a[0] == "esc" else b)[1], payload, repr((a, b))[:300])
            continue
        if a != b:
            ctx.finding("compatible-differs-from-modernised", payload, "compatible=True: %r ; modernised: %r" % (a, b))
        for t in toks:
            if t in TABLE:
                ctx.see("legacy_branch_ring_forms", t)
            elif t != "." and t.endswith("expl]"):
                ctx.see("expl_atoms", t.lstrip("[=#/\\"))
        reached = False
        if not legacy_pos:
            ctx.count("no_legacy")
            c = out(x)
            if c != a:
                ctx.finding("flag-changes-modern-string", payload, "without flag %r, with flag %r" % (c, a))
        else:
            ctx.count("with_legacy")
            # without the flag a legacy symbol is simply a symbol outside the grammar: the string must be rejected
            # exactly when the derivation of the RAW string reaches one (legacy symbols in index positions or after
            # termination are never reached)
            try:
                ref_decode(x, table)
                rej = None
            except RefReject as e:
                rej = e.symbol
            except ValueError:
                rej = "?"
            c = out(x)
            if rej is not None:
                if is_legacy(rej):
                    reached = True
                    ctx.count("legacy_reached")
                if c[0] != "err":
                    ctx.finding("legacy-symbol-accepted-without-flag", payload,
                                "the derivation reaches %s, decoder returned %r" % (rej, c))
                elif is_legacy(rej):
                    ctx.count("rejected_without_flag")
            elif c[0] != "ok":
                ctx.finding("unreached-legacy-symbol-rejected", payload, "no symbol outside the grammar is reached, decoder gave %r" % (c,))
            else:
                ctx.count("legacy_unreached_accepted")
        ctx.case(x, reached, sample={"selfies": x[:160], "modernised": y[:160], "compatible_result": a[1] if a[0] == "ok" else a[0]} if reached else None)


def replay(ctx, payload):
    sf = env.load_selfies()
    sf.set_semantic_constraints(payload["table"])
    x = payload["selfies"]
    y = "".join(modernize(t) if t != "." else t for t in tokens_with_dots(x))
    a = call_guard(lambda: sf.decoder(x, compatible=True), expected=(sf.DecoderError,))
    b = call_guard(lambda: sf.decoder(y), expected=(sf.DecoderError,))
    if a[:2] != b[:2]:
        ctx.finding("compatible-differs-from-modernised", payload, "%r vs %r" % (a, b))
