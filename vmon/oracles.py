"""Oracles shared by several properties.  None of them imports selfies."""
from vmon.refsem import capacity
from vmon.smiles_reader import (read_smiles, read_segmented, has_long_percent_run,
                                SmilesSyntaxError, SegmentationBudget)

F1_KEY = "F1-ring-label-ge-100"


def valence_problem(mol, table):
    """First atom whose bond-order sum + explicit H exceeds its capacity."""
    val = mol.valences()
    for a in mol.atoms:
        cap = capacity(table, a.element, a.charge)
        used = val[a.idx] + (a.hcount or 0)
        if used > cap:
            return "atom %d %s uses %r > capacity %r" % (a.idx, a.text, used, cap)
    return None


def judge_output(smi, table, accept=None, max_parses=300):
    """C01 oracle on one decoder output.

    Returns (status, mol, detail):
      'ok'        strict standard read is clean and obeys the table
      'f1'        only a non-standard segmentation of %ddd+ runs reads clean
                  (>= 100 labels)  -> known finding F1
      'budget'    segmentation search hit its cap (inconclusive for the case)
      'syntax' / 'valence' / 'mismatch'   violation, detail says what
    `accept(mol)` (optional) returns None if the read molecule is the expected
    one, else a difference text (C02)."""
    strict_err = None
    if table is None:
        valence = lambda mol, t: None
    else:
        valence = valence_problem
    try:
        m = read_smiles(smi)
        strict_err = valence(m, table)
        kind = "valence"
        if strict_err is None and accept is not None:
            strict_err = accept(m)
            kind = "mismatch"
        if strict_err is None:
            return "ok", m, None
    except SmilesSyntaxError as e:
        strict_err = str(e)
        kind = "syntax"
        m = None
    if not has_long_percent_run(smi):
        return kind, m, strict_err
    # F1 classification: does *some* segmentation read clean with >= 100 labels?
    first = None
    try:
        for m2 in read_segmented(smi, max_parses=max_parses):
            err = valence(m2, table)
            if err is None and accept is not None:
                err = accept(m2)
            if err is None:
                if len(set(m2.labels)) >= 100 or m2.max_label >= 100:
                    return "f1", m2, "strict read: %s" % strict_err
                return kind, m, "%s (a segmentation reads clean but uses < 100 labels)" % strict_err
            if first is None:
                first = err
    except SegmentationBudget:
        return "budget", None, strict_err
    return kind, m, "%s; no segmentation reads clean (%s)" % (strict_err, first)


def compare_with_reference(m, ref):
    """Molecule-level comparison of a read decoder output with the reference
    derivation: atoms in order, bonds + orders, stereo marks per bond end,
    written neighbour sequence of every atom.  None if equal."""
    if len(m.atoms) != len(ref.atoms):
        return "atom count %d, reference %d" % (len(m.atoms), len(ref.atoms))
    for i, a in enumerate(m.atoms):
        b = ref.atoms[i]
        ka = (a.element, a.isotope, a.chirality, a.hcount, a.charge)
        if ka != b.key():
            return "atom %d is %r, reference %r" % (i, ka, b.key())
    if m.bonds != ref.bonds:
        d = set(m.bonds.items()) ^ set(ref.bonds.items())
        return "bonds differ: %r" % (sorted(d)[:6],)
    if m.marks != ref.marks:
        return "stereo marks %r, reference %r" % (sorted(m.marks.items())[:6], sorted(ref.marks.items())[:6])
    for i in range(len(m.atoms)):
        if m.atoms[i].nbrs != ref.nbrs(i):
            return "neighbour order at atom %d: %r, reference %r" % (i, m.atoms[i].nbrs, ref.nbrs(i))
    return None


def perm_parity(a, b):
    """Parity of the permutation that maps sequence a onto sequence b."""
    idx = {}
    for i, x in enumerate(a):
        idx[x] = i
    p = [idx[x] for x in b]
    inv = 0
    for i in range(len(p)):
        for j in range(i + 1, len(p)):
            if p[i] > p[j]:
                inv += 1
    return inv % 2


def compare_roundtrip(min_, mout, check_stereo=True, aromatic_ok=True):
    """C03/C04 oracle: input molecule vs molecule after encoder->decoder, atom
    by atom.  Returns (code, text) or None."""
    if len(min_.atoms) != len(mout.atoms):
        return "natoms", "atom count %d -> %d" % (len(min_.atoms), len(mout.atoms))
    for a, b in zip(min_.atoms, mout.atoms):
        if (a.element, a.isotope, a.charge) != (b.element, b.isotope, b.charge):
            return "atom", "atom %d %s -> %s" % (a.idx, a.text, b.text)
        if a.hcount != b.hcount:   # None = organic-subset atom, implicit H
            return "hcount", "atom %d %s -> %s" % (a.idx, a.text, b.text)
        if b.aromatic:
            return "aromatic_out", "output atom %d still aromatic" % b.idx
    if set(min_.bonds) != set(mout.bonds):
        d = set(min_.bonds) ^ set(mout.bonds)
        return "bondset", "bonded pairs differ: %r" % (sorted(d)[:6],)
    for k, o in min_.bonds.items():
        if o != 1.5 and mout.bonds[k] != o:
            return "bondorder", "bond %r order %r -> %r" % (k, o, mout.bonds[k])
        if o == 1.5 and mout.bonds[k] not in (1, 2):
            return "bondorder", "aromatic bond %r became order %r" % (k, mout.bonds[k])
    if check_stereo:
        if min_.marks != mout.marks:
            return "marks", "stereo marks %r -> %r" % (sorted(min_.marks.items())[:8], sorted(mout.marks.items())[:8])
        for a, b in zip(min_.atoms, mout.atoms):
            if (a.chirality is None) != (b.chirality is None):
                return "chirality_lost", "atom %d tag %r -> %r" % (a.idx, a.chirality, b.chirality)
            if a.chirality:
                if sorted(map(str, a.nbrs)) != sorted(map(str, b.nbrs)) or len(set(map(str, a.nbrs))) != len(a.nbrs):
                    return "nbrset", "atom %d neighbours %r -> %r" % (a.idx, a.nbrs, b.nbrs)
                par = perm_parity(a.nbrs, b.nbrs)
                same = (a.chirality == b.chirality)
                if same != (par == 0):
                    return "chirality", "atom %d in=%s%r out=%s%r" % (a.idx, a.chirality, a.nbrs, b.chirality, b.nbrs)
    return None


def read_decoder_output(out, differs, max_parses=200):
    """Read a SMILES written by the decoder for comparison with an expected molecule.
    differs(mol) -> None if mol is the expected molecule, else a difference.
    -> (mol, status): status 'ok' (mol is the reading to judge; for a text with ring labels >= 100 - known finding F1 -
    a segmentation that equals the expectation, if there is one), 'budget' (F1 text, segmentation search cut short: no
    verdict possible, mol None), 'unreadable' (mol None)."""
    try:
        m = read_smiles(out)
        if not has_long_percent_run(out) or differs(m) is None:
            return m, "ok"
    except SmilesSyntaxError:
        m = None
        if not has_long_percent_run(out):
            return None, "unreadable"
    first = m
    try:
        for m2 in read_segmented(out, max_parses=max_parses):
            if differs(m2) is None:
                return m2, "ok"
            if first is None:
                first = m2
    except SegmentationBudget:
        return None, "budget"
    return (first, "ok") if first is not None else (None, "unreadable")
