"""Worker entry point:  python -m vmon.worker PROP TIER SEED SHARD NSHARDS OUT
or, for a replay:        python -m vmon.worker PROP --replay FILE OUT
"""
import faulthandler
import importlib
import json
import sys
import traceback
import warnings


def main(argv):
    faulthandler.enable()
    warnings.simplefilter("ignore")
    sys.setrecursionlimit(1000)  # CPython default, stated explicitly
    from vmon import env
    from vmon.harness import Ctx
    prop = argv[0]
    mod = importlib.import_module("vmon.props.%s" % prop.lower())
    if argv[1] == "--replay":
        rp = json.load(open(argv[2]))
        ctx = Ctx(prop, rp.get("tier", "quick"), int(rp.get("seed", 0)), 0, 1, argv[3])
        env.load_selfies()
        try:
            mod.replay(ctx, rp["payload"])
        except BaseException:
            ctx.oracle_crash({"replay": argv[2]})
        ctx.dump()
        return 0
    tier, seed, shard, nshards, out = argv[1], int(argv[2]), int(argv[3]), int(argv[4]), argv[5]
    ctx = Ctx(prop, tier, seed, shard, nshards, out)
    env.load_selfies()
    try:
        mod.run(ctx)
    except BaseException:
        # a crash of harness code is never a verdict about selfies: it is
        # reported as an oracle crash (unclassified => the run fails loudly)
        ctx.counters["worker_crash"] += 1
        ctx.finding("oracle-crash", {"where": "worker %d" % shard}, traceback.format_exc())
    for api in ctx.apis:
        ctx.count("call_forms_varied", api.varied_calls)
    ctx.dump()
    return 0


if __name__ == "__main__":
    sys.exit(main(sys.argv[1:]))
