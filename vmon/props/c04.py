"""C04 - round trip preserves tetrahedral and double-bond stereochemistry."""
from vmon import env, hooks, scopes, tablegen
from vmon.hooks import MON
from vmon.molgen import random_tree_mol, spell, symbol_family_smiles
from vmon.roundtrip import roundtrip

ID = "C04"
LEVEL = "exploration"
RULE = ("stereo-dense random molecules (4-14 atoms, ring density 0.3-0.9, every eligible atom chiral with a random tag, "
        "half of the single bonds carrying / or \\ marks on chain bonds and on either/both ends of ring closures), each in 4 "
        "random spellings; plus the dataset SMILES with their own stereo. A chiral atom's tag after encoder->decoder must equal "
        "tag_in XOR parity(permutation of the written neighbour sequence); every mark must be found on the same bond end. "
        "distinct = distinct spelling; non-trivial = at least one chiral atom that opens or closes a ring, or a mark on a ring bond")
ASSUMPTIONS = ["handedness is judged from the written neighbour order (preceding atom, H slot, ring-closure digits, branches) as "
               "recorded by the independent reader; no chemistry (CIP) is involved, tags are random",
               "OpenSMILES neighbour-order convention for ring-closure digits: the digit's position, not the partner's position"]


def shards(tier):
    return 16


def floors(tier):
    return {"roundtrips_ok": 3000, "chiral_centres": 5000, "chiral.opens_ring": 500, "chiral.closes_ring": 500,
            "chiral.opens_and_closes": 100, "chiral.first_atom": 50, "chiral.with_H": 300, "chiral.multi_ring>=2": 200,
            "chiral.ring_digit_after_branch": 200, "marks.chain": 500, "marks.ring_open_end": 100, "marks.ring_close_end": 100, "dataset_stereo_ok": 100, "stereo_ring_family_ok": 60, "encoder_flag_variants": 5000, "repeated_translations": 2000}


def _classify(ctx, mi):
    """Count centres / marks by class from the *input* as read independently."""
    nontrivial = False
    for a in mi.atoms:
        if not a.chirality:
            continue
        ctx.count("chiral_centres")
        opens = closes = 0
        for pos, n in enumerate(a.nbrs):
            if n == "H" or n is None:
                continue
            key = (min(a.idx, n), max(a.idx, n))
            if mi.bond_kind.get(key) == "ring":
                if n > a.idx:
                    opens += 1
                else:
                    closes += 1
        if opens:
            ctx.count("chiral.opens_ring")
        if closes:
            ctx.count("chiral.closes_ring")
        if opens and closes:
            ctx.count("chiral.opens_and_closes")
        if opens + closes >= 2:
            ctx.count("chiral.multi_ring>=2")
        seen_chain = False
        for n in a.nbrs:
            if isinstance(n, int) and n > a.idx and mi.bond_kind.get((a.idx, n)) == "chain":
                seen_chain = True
            elif isinstance(n, int) and seen_chain and mi.bond_kind.get((min(a.idx, n), max(a.idx, n))) == "ring":
                ctx.count("chiral.ring_digit_after_branch")
                break
        if a.idx == 0 or (a.nbrs and a.nbrs[0] == "H") or not any(isinstance(n, int) and n < a.idx and mi.bond_kind.get((n, a.idx)) == "chain" for n in a.nbrs):
            ctx.count("chiral.first_atom")
        if "H" in a.nbrs:
            ctx.count("chiral.with_H")
        if opens or closes:
            nontrivial = True
    for (a, b), c in mi.marks.items():
        key = (min(a, b), max(a, b))
        if mi.bond_kind.get(key) == "ring":
            ctx.count("marks.ring_open_end" if a < b else "marks.ring_close_end")
            nontrivial = True
        else:
            ctx.count("marks.chain")
    return nontrivial


def run(ctx):
    sf = env.varied(env.load_selfies(), ctx)
    hooks.attach_m1()
    hooks.attach_m1_encoder()
    hooks.attach_m2()
    rng = ctx.rng
    quick = ctx.tier == "quick"
    sf.set_semantic_constraints("hypervalent")
    table = sf.get_semantic_constraints()
    nmol = 1200 if quick else 40000
    for i in range(nmol):
        m = random_tree_mol(rng, rng.choice([4, 5, 6, 8, 12, 14] * 5 + [60, 200]), p_ring=rng.choice([0.3, 0.6, 0.9]),
                            p_chiral=1.0, p_stereo=0.5, p_double=0.1, p_triple=0, p_bracket=0.3,
                            ncomp=rng.choice([1, 1, 1, 2, 3, 5]), table=table)
        for k in range(4):
            try:
                s, order, tags, marks = spell(m, rng, mix_labels=rng.random() < 0.2,
                                               digits_after_branch=rng.choice([0, 0, 0.5, 1.0]),
                                               spanning=rng.choice(["dfs", "dfs", "random"]))
            except ValueError:
                break
            st, mi, mo, x = roundtrip(ctx, sf, s, table, True, "G5-stereo")
            nt = False
            if st == "ok":
                ctx.count("roundtrips_ok")
                nt = _classify(ctx, mi)
            ctx.case(s, nt, sample={"smiles": s, "selfies": x, "out": None} if nt else None)

    for s, tag in list(symbol_family_smiles(rng))[ctx.shard::ctx.nshards]:
        if "stereo" not in tag:
            continue
        st, mi, mo, x = roundtrip(ctx, sf, s, table, True, "symbol-family:" + tag)
        if st == "ok":
            ctx.count("stereo_ring_family_ok")
        ctx.case(s, st == "ok")

    # dataset SMILES carry real-world stereo
    t = dict(tablegen.PRESETS["hypervalent"], **{"P": 7, "P-1": 8, "P+1": 6, "?": 12})
    sf.set_semantic_constraints(t)
    table = sf.get_semantic_constraints()
    data = [s for s in scopes.dataset_smiles(400 if quick else 100000) if ("@" in s or "/" in s or "\\" in s)]
    for s in data[ctx.shard::ctx.nshards][: (100 if quick else 10 ** 9)]:
        if "*" in s or "$" in s:
            continue
        st, mi, mo, x = roundtrip(ctx, sf, s, table, True, "dataset")
        nt = False
        if st == "ok":
            ctx.count("dataset_stereo_ok")
            nt = _classify(ctx, mi)
        elif st == "gen_bug":
            # a dataset string the reader cannot read is not a generator bug
            ctx.findings.pop("generator-bug", None)
            ctx.count("dataset_reader_rejects")
        ctx.case(s, nt)
    for k, v in MON.counts.items():
        ctx.count(k, v)
    for u in MON.unreached:
        ctx.see("unreached_monitors", u)


def replay(ctx, payload):
    sf = env.load_selfies()
    hooks.attach_m1()
    hooks.attach_m1_encoder()
    hooks.attach_m2()
    sf.set_semantic_constraints(payload["table"])
    roundtrip(ctx, sf, payload.get("smiles_full", payload["smiles"]), payload["table"], True, "replay")
