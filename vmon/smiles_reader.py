"""Independent SMILES reader.  Shares no code with selfies.

Reads the OpenSMILES subset that selfies' encoder supports and that its
decoder writes: organic-subset and bracket atoms (isotope, @/@@, H count,
every charge spelling, atom class), bonds - = # : / \\, branches, ring-closure
digits and %nn, dots.  Strict: any deviation raises SmilesSyntaxError with a
reason code.  For every atom it records the *written neighbour sequence*
(preceding atom, H slot, ring-closure digits in written order, chain
successors in written order) and for every bond end the / or \\ mark.
"""

DIGITS = "0123456789"
ORGANIC = ("Cl", "Br", "B", "C", "N", "O", "P", "S", "F", "I")
AROMATIC_ORGANIC = ("b", "c", "n", "o", "p", "s")
AROMATIC_BRACKET = ("se", "as", "te", "si", "al", "b", "c", "n", "o", "p", "s")
BOND_ORDER = {"-": 1, "/": 1, "\\": 1, "=": 2, "#": 3, ":": 1.5}

ELEMENTS = frozenset("""H He Li Be B C N O F Ne Na Mg Al Si P S Cl Ar K Ca Sc Ti V Cr
Mn Fe Co Ni Cu Zn Ga Ge As Se Br Kr Rb Sr Y Zr Nb Mo Tc Ru Rh Pd Ag Cd In Sn
Sb Te I Xe Cs Ba La Ce Pr Nd Pm Sm Eu Gd Tb Dy Ho Er Tm Yb Lu Hf Ta W Re Os Ir
Pt Au Hg Tl Pb Bi Po At Rn Fr Ra Ac Th Pa U Np Pu Am Cm Bk Cf Es Fm Md No Lr
Rf Db Sg Bh Hs Mt Ds Rg Cn Fl Lv""".split())


class SmilesSyntaxError(Exception):
    def __init__(self, code, pos, msg=""):
        Exception.__init__(self, "%s at %d %s" % (code, pos, msg))
        self.code = code
        self.pos = pos


class SegmentationBudget(Exception):
    """The segmentation search hit its step cap (inconclusive, not a verdict)."""


class RAtom(object):
    __slots__ = ("idx", "element", "aromatic", "isotope", "chirality",
                 "hcount", "charge", "bracket", "text", "start", "end",
                 "nbrs", "cls")

    def key(self):
        return (self.element, self.isotope, self.hcount or 0, self.charge)

    def __repr__(self):
        return "RAtom(%d,%s)" % (self.idx, self.text)


class RMol(object):
    def __init__(self):
        self.atoms = []
        self.bonds = {}      # (i,j) i<j -> order
        self.bond_kind = {}  # (i,j) -> 'chain' | 'ring'
        self.marks = {}      # (end_atom, other_atom) -> '/' or '\\' as written at end_atom's side
        self.labels = []     # label numbers in opening order
        self.max_label = 0
        self.n_ring_bonds = 0
        self.fragments = 0
        self.max_depth = 0
        self.n_branches = 0
        self.seg = None      # segmentation used (None = standard read)

    def valences(self):
        v = [0] * len(self.atoms)
        for (a, b), o in self.bonds.items():
            v[a] += o
            v[b] += o
        return v

    def adjacency(self):
        out = [[] for _ in self.atoms]
        for (a, b) in self.bonds:
            out[a].append(b)
            out[b].append(a)
        return out


def _read_bracket(s, i):
    # s[i] == '['
    j = s.find("]", i + 1)
    if j < 0:
        raise SmilesSyntaxError("unclosed_bracket", i)
    body = s[i + 1:j]
    a = RAtom()
    a.bracket = True
    a.text = s[i:j + 1]
    k = 0
    n = len(body)
    k0 = k
    while k < n and body[k] in DIGITS:
        k += 1
    a.isotope = int(body[k0:k]) if k > k0 else None
    sym = None
    if k < n and "A" <= body[k] <= "Z":
        if k + 1 < n and "a" <= body[k + 1] <= "z" and body[k:k + 2] in ELEMENTS:
            sym = body[k:k + 2]
        elif body[k] in ELEMENTS:
            sym = body[k]
        else:
            raise SmilesSyntaxError("bad_element", i, body)
        a.aromatic = False
        a.element = sym
    else:
        for cand in AROMATIC_BRACKET:
            if body.startswith(cand, k) and (sym is None or len(cand) > len(sym)):
                sym = cand
        if sym is None:
            raise SmilesSyntaxError("bad_element", i, body)
        a.aromatic = True
        a.element = sym.capitalize()
    k += len(sym)
    a.chirality = None
    if k < n and body[k] == "@":
        if k + 1 < n and body[k + 1] == "@":
            a.chirality = "@@"
            k += 2
        else:
            a.chirality = "@"
            k += 1
    a.hcount = 0
    if k < n and body[k] == "H":
        k += 1
        k0 = k
        while k < n and body[k] in DIGITS:
            k += 1
        a.hcount = int(body[k0:k]) if k > k0 else 1
    a.charge = 0
    if k < n and body[k] in "+-":
        sign = 1 if body[k] == "+" else -1
        c = body[k]
        k0 = k
        k += 1
        if k < n and body[k] in DIGITS:
            k1 = k
            while k < n and body[k] in DIGITS:
                k += 1
            a.charge = sign * int(body[k1:k])
        else:
            while k < n and body[k] == c:
                k += 1
            a.charge = sign * (k - k0)
    a.cls = None
    if k < n and body[k] == ":":
        k += 1
        k0 = k
        while k < n and body[k] in DIGITS:
            k += 1
        if k == k0:
            raise SmilesSyntaxError("bad_class", i, body)
        a.cls = int(body[k0:k])
    if k != n:
        raise SmilesSyntaxError("bad_bracket_atom", i, body)
    return a, j + 1


def read_smiles(s, choices=None, pending=None):
    """Parse s strictly.

    Standard reading: '%' is followed by exactly two digits.  When `choices`
    is a list, a '%' followed by k >= 3 digits is a choice point: the first
    label takes m digits (2 <= m <= k), the remaining k-m digits are
    single-digit labels.  choices[j] fixes m for the j-th choice point; at an
    undecided point the best candidate is taken and the alternatives are
    appended to `pending` as complete choice prefixes."""
    mol = RMol()
    if s == "":
        return mol
    i = 0
    n = len(s)
    prev = None           # previous atom index on the current chain
    stack = []            # saved prev at '('
    pending_bond = None   # (char, pos)
    open_rings = {}       # label -> (atom, bond_char, slot_index)
    after_open = False
    used = [] if choices is not None else None
    run_no = 0
    queue = []            # labels still to process from a '%' run: (label, start)
    while i < n or queue:
        if queue:
            label, st = queue.pop(0)
            ch = None
        else:
            ch = s[i]
        if ch == ".":
            if pending_bond is not None:
                raise SmilesSyntaxError("bond_before_dot", i)
            if prev is None or after_open:
                raise SmilesSyntaxError("empty_fragment", i)
            if stack:
                raise SmilesSyntaxError("dot_inside_branch", i)
            prev = None
            i += 1
            continue
        if ch is not None and ch in BOND_ORDER:
            if pending_bond is not None:
                raise SmilesSyntaxError("double_bond_symbol", i)
            if prev is None:
                raise SmilesSyntaxError("bond_without_left_atom", i)
            pending_bond = (ch, i)
            i += 1
            continue
        if ch == "(":
            if pending_bond is not None:
                raise SmilesSyntaxError("bond_before_paren", i)
            if prev is None or after_open:
                raise SmilesSyntaxError("branch_without_atom", i)
            stack.append(prev)
            mol.n_branches += 1
            if len(stack) > mol.max_depth:
                mol.max_depth = len(stack)
            after_open = True
            i += 1
            continue
        if ch == ")":
            if pending_bond is not None:
                raise SmilesSyntaxError("bond_before_paren", i)
            if not stack:
                raise SmilesSyntaxError("unbalanced_close", i)
            if after_open:
                raise SmilesSyntaxError("empty_branch", i)
            prev = stack.pop()
            i += 1
            continue
        if ch is None or ch in DIGITS or ch == "%":
            if ch is not None:
                if prev is None or after_open:
                    raise SmilesSyntaxError("ring_label_without_atom", i)
                st = i
                if ch == "%":
                    j = i + 1
                    while j < n and s[j] in DIGITS:
                        j += 1
                    digits = s[i + 1:j]
                    k = len(digits)
                    if k < 2:
                        raise SmilesSyntaxError("bad_percent_label", i)
                    if choices is None or k == 2:
                        m = 2
                        j = i + 3
                        digits = digits[:2]
                    else:
                        if run_no < len(choices):
                            m = choices[run_no]
                            if not (2 <= m <= k):
                                raise SmilesSyntaxError("bad_choice", i)
                        else:
                            cands = _rank_candidates(digits, open_rings, mol.max_label)
                            m = cands[0]
                            if pending is not None:
                                for alt in reversed(cands[1:]):
                                    pending.append(used + [alt])
                        used.append(m)
                        run_no += 1
                        for d in digits[m:]:
                            queue.append((int(d), st))
                    label = int(digits[:m])
                    i = j
                else:
                    label = int(ch)
                    i += 1
            bchar = pending_bond[0] if pending_bond else None
            pending_bond = None
            if label in open_rings:
                a, achar, slot = open_rings.pop(label)
                b = prev
                if a == b:
                    raise SmilesSyntaxError("self_bond", st)
                key = (min(a, b), max(a, b))
                if key in mol.bonds:
                    raise SmilesSyntaxError("duplicate_bond", st)
                oa = BOND_ORDER[achar] if achar else None
                ob = BOND_ORDER[bchar] if bchar else None
                if oa is not None and ob is not None and oa != ob:
                    raise SmilesSyntaxError("ring_bond_mismatch", st)
                o = oa if oa is not None else ob
                if o is None:
                    o = 1.5 if (mol.atoms[a].aromatic and mol.atoms[b].aromatic) else 1
                mol.bonds[key] = o
                mol.bond_kind[key] = "ring"
                mol.n_ring_bonds += 1
                if achar in ("/", "\\"):
                    mol.marks[(a, b)] = achar
                if bchar in ("/", "\\"):
                    mol.marks[(b, a)] = bchar
                mol.atoms[a].nbrs[slot] = b
                mol.atoms[b].nbrs.append(a)
            else:
                slot = len(mol.atoms[prev].nbrs)
                mol.atoms[prev].nbrs.append(None)
                open_rings[label] = (prev, bchar, slot)
                mol.labels.append(label)
                if label > mol.max_label:
                    mol.max_label = label
            continue
        # atom
        st = i
        if ch == "[":
            a, i = _read_bracket(s, i)
        else:
            a = None
            for sym in ORGANIC:
                if s.startswith(sym, i):
                    a = RAtom()
                    a.element = sym
                    a.aromatic = False
                    break
            if a is None:
                for sym in AROMATIC_ORGANIC:
                    if s.startswith(sym, i):
                        a = RAtom()
                        a.element = sym.upper()
                        a.aromatic = True
                        break
            if a is None:
                raise SmilesSyntaxError("bad_char", i, repr(ch))
            a.bracket = False
            a.isotope = None
            a.chirality = None
            a.hcount = None
            a.charge = 0
            a.cls = None
            a.text = sym
            i += len(sym)
        a.idx = len(mol.atoms)
        a.start, a.end = st, i
        a.nbrs = []
        mol.atoms.append(a)
        if prev is None:
            mol.fragments += 1
            if pending_bond is not None:
                raise SmilesSyntaxError("bond_without_left_atom", st)
        else:
            bchar = pending_bond[0] if pending_bond else None
            if bchar is None:
                o = 1.5 if (mol.atoms[prev].aromatic and a.aromatic) else 1
            else:
                o = BOND_ORDER[bchar]
            mol.bonds[(prev, a.idx)] = o
            mol.bond_kind[(prev, a.idx)] = "chain"
            if bchar in ("/", "\\"):
                mol.marks[(prev, a.idx)] = bchar
            mol.atoms[prev].nbrs.append(a.idx)
            a.nbrs.append(prev)
        # H slot for chirality: after the preceding atom, before the rest
        if a.bracket and a.hcount:
            a.nbrs.append("H")
        pending_bond = None
        prev = a.idx
        after_open = False
    if pending_bond is not None:
        raise SmilesSyntaxError("dangling_bond", n)
    if stack:
        raise SmilesSyntaxError("unbalanced_open", n)
    if after_open:
        raise SmilesSyntaxError("empty_branch", n)
    if open_rings:
        raise SmilesSyntaxError("unclosed_ring_label", n, str(sorted(open_rings)[:5]))
    if prev is None:
        raise SmilesSyntaxError("empty_fragment", n)
    mol.seg = used
    return mol


def _rank_candidates(digits, open_rings, max_label):
    """Order the possible lengths m of the first label of a '%' run."""
    k = len(digits)
    ranked = []
    for m in range(2, k + 1):
        label = int(digits[:m])
        rest = [int(d) for d in digits[m:]]
        rest_open = all(d in open_rings for d in rest) and len(set(rest)) == len(rest)
        if label in open_rings and label not in rest:
            cls = 0 if rest_open else 3
        elif label == max_label + 1 or (max_label < 10 and label == 10):
            cls = 1 if rest_open else 4
        elif label > max_label:
            cls = 2 if rest_open else 5
        else:
            cls = 6      # a closed label re-opened: legal but never what the writer does
        ranked.append((cls, -m, m))
    ranked.sort()
    return [m for _, _, m in ranked]


def has_long_percent_run(s):
    i = s.find("%")
    while i >= 0:
        j = i + 1
        while j < len(s) and s[j] in DIGITS:
            j += 1
        if j - i - 1 >= 3:
            return True
        i = s.find("%", j)
    return False


def read_segmented(s, max_parses=300):
    """Generate every clean read of s over the segmentations of its '%'-digit
    runs, best guess first.  Raises SegmentationBudget when the cap is hit."""
    stack = [[]]
    parses = 0
    while stack:
        prefix = stack.pop()
        parses += 1
        if parses > max_parses:
            raise SegmentationBudget("%d parses" % max_parses)
        pending = []
        try:
            mol = read_smiles(s, choices=prefix, pending=pending)
        except SmilesSyntaxError:
            mol = None
        # alternatives of deeper choice points are explored first
        stack.extend(pending)
        if mol is not None:
            yield mol
