"""C19 - concurrent translation calls give the same results as serial calls.
Thread schedules with a barrier start, a 1 us switch interval and (in part of
the rounds) the M8 yield injector; serial truth from a forked fresh child."""
import sys
import threading
import time

from vmon import env, tablegen
from vmon.fresh import Zygote
from vmon import hooks
from vmon.hooks import YieldInjector, call_guard, cache_probe, MON
from vmon.molgen import random_tree_mol, spell
from vmon.aromgen import standard_system, benzenoid_system
from vmon.refsem import tokens_with_dots
from vmon.selfgen import LiveGen
from vmon.zygote import jsonable

ID = "C19"
LEVEL = "exploration"
RULE = ("rounds of N in {2,4,8,16} threads started on a barrier with sys.setswitchinterval(1e-6); every thread runs its own slice of "
        "120-200 encoder/decoder jobs plus a shared hot subset, the jobs carry novel symbols (random isotopes / charges) so that "
        "first-sight cache writes race, several threads receive the very same novel input, and a dozen never-seen inputs per round are started by all threads at the same instant (one barrier per input); in half of the rounds a "
        "sys.monitoring LINE callback yields (sleep(0)) with probability 0.02 at statements of the repository's code. Every call's "
        "result (value or exception type, attribution included) is compared with the same call run alone in a freshly forked "
        "interpreter set to the same table. distinct = distinct job; non-trivial = job executed while another thread was inside "
        "the library (overlap measured with a monotonic clock at the API boundary)")
ASSUMPTIONS = ["CPython 3.12 with the GIL: interleavings are at bytecode / statement granularity, sampled, not enumerated"]


def shards(tier):
    return 16


def timeout(tier):
    return 1800 if tier == "quick" else 14400


def floors(tier):
    return {"calls": 5000, "overlapping_calls": 2000, "switches_inside_repo": 5000, "rounds": 60, "rounds_with_injection": 25, "set:yield_focus": 6,
            "novel_symbol_jobs": 2000, "simultaneous_first_sight_calls": 2000, "same_input_in_several_threads": 500, "set:thread_counts": 4, "M4b.augmenting_path_searches": 300}


FILES = ["matching_utils", "mol_graph", "decoder", "encoder", "grammar_rules", "smiles_utils", "bond_constraints"]


def do(sf, job):
    kind, x, flags = job
    fn = (lambda: sf.decoder(x, **flags)) if kind == "d" else (lambda: sf.encoder(x, **flags))
    r = call_guard(fn, expected=(sf.DecoderError, sf.EncoderError))
    if r[0] == "ok":
        return ["ok", jsonable(r[1])]
    if r[0] == "err":
        return ["err", r[1]]
    return ["esc", r[1]]


def make_jobs(rng, table, n):
    g = LiveGen(table, rng)
    jobs = []
    # deeply nested inputs, far from the interpreter's recursion limit on either side: they either translate
    # (depth <= 800) or raise RecursionError (depth >= 2600, known findings F5/F9) - alone and concurrently alike
    deep = []
    if rng.random() < 0.5:
        for d in (rng.choice([300, 600, 760, 800]), rng.choice([760, 800]), rng.choice([2600, 3000])):
            deep.append(["e", "C(" * d + "F" + ")F" * d, {"strict": False}])
        deep.append(["d", "[S][Branch1][P]" * rng.choice([300, 700]) + "[C]", {}])
    # refused strings: the symbol outside the grammar sits deep inside nested branches, or the nesting itself is too deep
    # (RecursionError, known finding F5) - what such a call leaves behind must not reach the next call of the thread
    for d in (rng.choice([60, 150]), rng.choice([300, 500])):
        deep.append(["d", "[S][Branch1][P]" * d + "[Foo][C]", {"attribute": rng.random() < 0.3}])
    if rng.random() < 0.5:
        deep.append(["d", "[S][Branch1][P]" * rng.choice([2600, 3000]) + "[C]", {}])
    for i in range(n):
        x = rng.random()
        if x < 0.15:
            # a burst of never-seen symbols: every one is a miss (and a write) in the symbol memo of whichever thread gets it
            syms = ["[%d%s%s]" % (rng.randint(1, 99999), rng.choice(["C", "N", "O", "S", "P", "Si", "Fe"]), rng.choice(["", "", "H1", "+1", "-1"]))
                    for _ in range(rng.choice([10, 25, 40]))]
            for k in range(0, len(syms), 4):
                syms.insert(k, rng.choice(["[Branch1]", "[Ring1]", "[=Branch1]"]))
            jobs.append(["d", "".join(syms), {"attribute": rng.random() < 0.2}])
            continue
        if x < 0.5:
            s = g.string(rng.choice([1, 2]), rng.choice([10, 40]))
            toks = tokens_with_dots(s)
            # novel symbols: cache misses in process_atom_symbol race
            for k in range(rng.choice([1, 2, 3])):
                p = rng.randrange(len(toks))
                if toks[p] not in (".",):
                    toks[p] = "[%d%s%s]" % (rng.randint(1, 999), rng.choice(["C", "N", "S", "Fe", "Se"]),
                                          rng.choice(["", "", "+1", "-1", "H1", "@@"]))
            jobs.append(["d", "".join(toks), {"attribute": rng.random() < 0.15}])
        elif x < 0.9:
            m = random_tree_mol(rng, rng.choice([5, 10, 20]), p_ring=0.2, p_bracket=0.3, table=table)
            for a in m.atoms:
                if a.hcount is not None and rng.random() < 0.5:
                    a.isotope = rng.randint(1, 999)
            if not m.atoms:
                continue
            jobs.append(["e", spell(m, rng)[0], {"strict": rng.random() < 0.5, "attribute": rng.random() < 0.15}])
        elif x < 0.93:
            m, _, _ = standard_system(rng, nrings=rng.choice([1, 2, 3]))
            jobs.append(["e", spell(m, rng)[0], {"strict": False}])
        else:
            # cata-/peri-condensed all-hexagon systems: the greedy matching is often not perfect for them, so the
            # augmenting-path search (with its own scratch state) runs
            m, _, _ = standard_system(rng, nrings=rng.choice([4, 5, 6, 8, 10]), sizes=(6,), chords=0)
            for k in range(rng.choice([1, 2, 3])):
                jobs.append(["e", ".".join(spell(m, rng)[0] for _ in range(rng.choice([1, 3]))), {"strict": False}])
    n_normal = len(jobs)
    return jobs + deep, n_normal


def make_sync_jobs(rng, table):
    """Jobs that every thread of a round starts at the same instant (own barrier per job) and that nobody has run before:
    whatever the library computes once per new input / new graph shape / new symbol is computed by all threads together."""
    jobs = []
    for _ in range(24):
        sizes = rng.choice([(6,), (6,), (5, 6, 6, 7), (5, 6, 6)])
        if rng.random() < 0.4:
            m, _, _ = benzenoid_system(rng, rng.choice([5, 8, 10, 14]))
        else:
            m, _, _ = standard_system(rng, nrings=rng.choice([5, 8, 10, 14, 20]), sizes=sizes, chords=0)
        jobs.append(["e", spell(m, rng)[0], {"strict": False}])
    for _ in range(4):
        syms = ["[%d%s%s]" % (rng.randint(100000, 999999), rng.choice(["C", "N", "O", "S", "P", "Si", "Fe"]), rng.choice(["", "", "H1", "+1", "-1"]))
                for _ in range(rng.choice([6, 12]))]
        syms.insert(2, rng.choice(["[Branch1]", "[Ring1]", "[=Branch1]"]))
        jobs.append(["d", "".join(syms), {"attribute": rng.random() < 0.2}])
    for _ in range(2):
        m = random_tree_mol(rng, rng.choice([8, 15]), p_ring=0.3, p_bracket=0.4, table=table)
        for a in m.atoms:
            if a.hcount is not None:
                a.isotope = rng.randint(1000, 99999)
        if m.atoms:
            jobs.append(["e", spell(m, rng)[0], {"strict": rng.random() < 0.5}])
    # unusual but accepted notations (each takes a path ordinary inputs never take)
    jobs.append(["e", rng.choice(["C:C", "OC:CN", "C-C=C-C", "C=1CCCCC=1", "C%12CC%12", "[C][C]", "C1.C1", "[CH3][CH2-]", "N(C)(C)(C)(C)C"]), {"strict": False}])
    return jobs


def run(ctx):
    sf = env.load_selfies()
    rng = ctx.rng
    quick = ctx.tier == "quick"
    z = Zygote(ctx.shard % 5)
    hooks.attach_m4b()
    old = sys.getswitchinterval()
    try:
        for rnd in range(6 if quick else 100):
            t = rng.choice(["default", "hypervalent", "octet_rule", tablegen.random_table(rng, q=rng.choice([4, 8]))])
            sf.set_semantic_constraints(t)
            table = sf.get_semantic_constraints()
            nth = rng.choice([2, 4, 8, 16])
            ctx.see("thread_counts", nth)
            jobs, n_normal = make_jobs(rng, table, rng.choice([120, 200]))
            hot = list(range(0, n_normal, 7))      # the (expensive) deep jobs run once each, not in every thread
            refused = [["d", rng.choice(["[S][Branch1][P]", "[C][=Branch1][P]", "[P][Branch2][P][P]"]) * rng.choice([250, 400, 600]) + rng.choice(["[Foo]", "[CH9]", "[Branch9]"]) + "[C]",
                        {"attribute": rng.random() < 0.3}] for _ in range(rng.choice([2, 4]))]
            refused_results = [[] for _ in refused]
            sync_jobs = make_sync_jobs(rng, table)
            sync_results = [[] for _ in sync_jobs]
            stagger = [rng.choice([0, 0, 2e-5, 1e-4, 5e-4, 2e-3]) for _ in sync_jobs]
            inject = (rnd % 2 == 1)
            results = [None] * len(jobs)
            hot_results = [[] for _ in jobs]
            spans = []
            lock = threading.Lock()
            bar = threading.Barrier(nth)
            errors = []

            def worker(k):
                try:
                    bar.wait()
                    mine = []
                    for i in range(k, len(jobs), nth):
                        t0 = time.monotonic_ns()
                        results[i] = do(sf, jobs[i])
                        mine.append((t0, time.monotonic_ns(), k, i))
                    for i, job in enumerate(refused):
                        # every thread: a few refused calls (the error is met deep inside nested branches) before it goes on
                        r = do(sf, job)
                        with lock:
                            refused_results[i].append(r)
                    for i in hot:
                        t0 = time.monotonic_ns()
                        r = do(sf, jobs[i])
                        mine.append((t0, time.monotonic_ns(), k, i))
                        with lock:
                            hot_results[i].append(r)
                    for i, job in enumerate(sync_jobs):
                        if k == 0 and inject:
                            # the forced switches of this job go to one source file, the files take turns
                            inj.focus = FILES[(i + rnd) % len(FILES)]
                            inj.p_focus = 0.25
                            inj.max_yields = inj.yields + 4000
                        bar.wait(timeout=300)
                        if stagger[i]:
                            # the threads enter one after the other: the later ones arrive while the earlier ones are
                            # in the middle of whatever is computed once per new input
                            time.sleep(k * stagger[i])
                        t0 = time.monotonic_ns()
                        r = do(sf, job)
                        mine.append((t0, time.monotonic_ns(), k, len(jobs) + i))
                        with lock:
                            sync_results[i].append(r)
                    with lock:
                        spans.extend(mine)
                except BaseException as e:   # harness failure, never swallowed
                    errors.append(repr(e))
                    bar.abort()

            # every injected round concentrates the forced switches on one source file (and keeps a low rate elsewhere)
            focus = rng.choice(["matching_utils", "mol_graph", "decoder", "encoder", "grammar_rules", "smiles_utils",
                                "bond_constraints", None])
            inj = YieldInjector(0.02 if focus is None else 0.005, rng.getrandbits(32), focus=focus, p_focus=0.1)
            ctx.see("yield_focus", focus or "uniform")
            before = cache_probe()
            sys.setswitchinterval(1e-6)
            if inject:
                inj.start()
            else:
                inj.p = 0.0
                inj.start()     # counts switches inside repo frames without yielding
            try:
                ths = [threading.Thread(target=worker, args=(k,)) for k in range(nth)]
                for th in ths:
                    th.start()
                for th in ths:
                    th.join()
            finally:
                inj.stop()
                sys.setswitchinterval(old)
            after = cache_probe()
            if errors:
                ctx.finding("oracle-crash", {"round": rnd}, errors[0])
                continue
            ctx.count("rounds")
            if inject:
                ctx.count("rounds_with_injection")
                ctx.count("yields_injected", inj.yields)
            ctx.count("switches_inside_repo", inj.switches)
            ctx.count("line_events", inj.lines)
            ctx.count("atom_cache_growth", max(0, (after["atom_cache"] or 0) - (before["atom_cache"] or 0)))
            # overlap accounting
            spans.sort()
            overl = set()
            active = []
            for s0, s1, k, i in spans:
                active = [a for a in active if a[1] > s0]
                for a in active:
                    if a[2] != k:
                        overl.add((k, i, s0))
                        overl.add((a[2], a[3], a[0]))
                active.append((s0, s1, k, i))
            ctx.count("overlapping_calls", len(overl))
            ctx.count("calls", len(spans))
            ctx.count("novel_symbol_jobs", sum(1 for j in jobs if j[0] == "d"))
            ctx.count("same_input_in_several_threads", len(hot) * nth)
            ctx.count("simultaneous_first_sight_calls", len(sync_jobs) * nth)
            # serial truth from a fresh child (cannot be contaminated by the concurrent run)
            serial_all = z.run(table, jobs + sync_jobs + refused, isolate=True)      # one fresh child per job: alone means alone
            serial, serial_sync = serial_all[:len(jobs)], serial_all[len(jobs):len(jobs) + len(sync_jobs)]
            serial_refused = serial_all[len(jobs) + len(sync_jobs):]
            for i, j in enumerate(refused):
                ctx.count("refused_nested_calls", len(refused_results[i]))
                for r in refused_results[i]:
                    if r != serial_refused[i]:
                        ctx.finding("concurrent-result-differs-from-serial", {"job": [j[0], j[1][:200] + "...", j[2]], "table": table, "threads": nth,
                                                                            "yield_injection": inject},
                                    "refused call: in its thread %s ; alone %s" % (repr(r)[:200], repr(serial_refused[i])[:200]))
                        break
            for i, j in enumerate(sync_jobs):
                ctx.case((j[0], j[1], sorted(j[2].items())), True)
                for r in sync_results[i]:
                    if r != serial_sync[i]:
                        ctx.finding("concurrent-result-differs-from-serial",
                                    {"job": j, "table": table, "threads": nth, "yield_injection": inject, "simultaneous_start": True},
                                    "all threads at once: concurrent %s ; alone %s" % (repr(r)[:300], repr(serial_sync[i])[:300]))
                        break
            for i, j in enumerate(jobs):
                ov = any(o[1] == i for o in overl)
                ctx.case((j[0], j[1], sorted(j[2].items())), ov,
                         sample={"job": [j[0], j[1][:100], j[2]], "threads": nth, "injected": inject} if ov and i % 40 == 0 else None)
                payload = {"job": j, "table": table, "threads": nth, "yield_injection": inject}
                if results[i] != serial[i]:
                    ctx.finding("concurrent-result-differs-from-serial", payload,
                                "concurrent %s ; alone %s" % (repr(results[i])[:300], repr(serial[i])[:300]))
                for r in hot_results[i]:
                    if r != serial[i]:
                        ctx.finding("concurrent-result-differs-from-serial", payload,
                                    "hot job: concurrent %s ; alone %s" % (repr(r)[:300], repr(serial[i])[:300]))
                        break
    finally:
        sys.setswitchinterval(old)
        z.close()
    for k, v in MON.counts.items():
        ctx.count(k, v)
    sf.set_semantic_constraints("default")


def replay(ctx, payload):
    sf = env.load_selfies()
    sf.set_semantic_constraints(payload["table"])
    z = Zygote(0)
    try:
        alone = z.run(payload["table"], [payload["job"]])[0]
    finally:
        z.close()
    ctx.notes["alone"] = alone
    ctx.notes["note"] = "a schedule cannot be replayed exactly; the job is re-run under 8 threads x 200 repetitions with yield injection"
    job = payload["job"]
    inj = YieldInjector(0.05, 1)
    bad = []
    sys.setswitchinterval(1e-6)
    inj.start()

    def w():
        for _ in range(200):
            r = do(sf, job)
            if r != alone:
                bad.append(r)
    try:
        ths = [threading.Thread(target=w) for _ in range(8)]
        [t.start() for t in ths]
        [t.join() for t in ths]
    finally:
        inj.stop()
        sys.setswitchinterval(0.005)
    if bad:
        ctx.finding("concurrent-result-differs-from-serial", payload, "%r vs alone %r" % (bad[0], alone))
