"""vmon - runtime monitoring of aspuru-guzik-group/selfies (see ../DESIGN.md)."""
