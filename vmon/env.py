"""Locations, dependency bootstrap and loading of the code under test.

Everything is checkout-relative: ROOT is the directory that contains this
package, wherever /verif has been restored to.  The code under test is the
working tree at SELFIES_REPO (default /repo); it is always imported from
source (no stale byte code is ever read, see `child_env`).
"""
import os
import subprocess
import sys

ROOT = os.path.dirname(os.path.dirname(os.path.abspath(__file__)))
DEPS = os.path.join(ROOT, ".deps")
WORK = os.path.join(ROOT, "work")
EVIDENCE = os.path.join(ROOT, "evidence")
REPLAYS = os.path.join(ROOT, "replays")
WHEELS = "/opt/veriftools/wheels"
PYTHON = os.environ.get("VMON_PYTHON", "/venv/bin/python")
GUARD = "SELFIES_VERIF"

NEEDED = ("icontract", "networkx", "atheris")


def repo_path():
    return os.path.abspath(os.environ.get("SELFIES_REPO", "/repo"))


def deps_present():
    return all(os.path.isdir(os.path.join(DEPS, n)) for n in NEEDED)


def ensure_deps(verbose=False):
    """Install the third-party helpers from the offline wheelhouse into the
    git-ignored .deps directory (idempotent; safe under concurrent callers
    because pip --target into an existing complete tree is skipped)."""
    if deps_present():
        return True
    os.makedirs(DEPS, exist_ok=True)
    lock = os.path.join(DEPS, ".lock")
    import fcntl
    with open(lock, "w") as fh:
        fcntl.flock(fh, fcntl.LOCK_EX)
        if deps_present():
            return True
        cmd = [PYTHON, "-m", "pip", "install", "--quiet", "--no-index",
               "--find-links", WHEELS, "--target", DEPS, "--upgrade",
               "icontract", "networkx", "atheris"]
        env = dict(os.environ, PIP_NO_INDEX="1",
                   PIP_DISABLE_PIP_VERSION_CHECK="1")
        r = subprocess.run(cmd, env=env, capture_output=True, text=True)
        if verbose or r.returncode != 0:
            sys.stderr.write(r.stdout + r.stderr)
        return r.returncode == 0 and deps_present()


def child_env(hashseed=0, extra=None):
    """Environment for worker processes."""
    env = dict(os.environ)
    pp = [ROOT, DEPS]
    env["PYTHONPATH"] = os.pathsep.join(pp)
    env["PYTHONHASHSEED"] = str(hashseed)
    env["PYTHONDONTWRITEBYTECODE"] = "1"
    # byte code of the code under test is never read from its own
    # __pycache__: point the cache prefix at a directory nobody writes to
    env["PYTHONPYCACHEPREFIX"] = os.path.join(WORK, "nopyc")
    env[GUARD] = "1"
    env["SELFIES_REPO"] = repo_path()
    env.setdefault("PYTHONWARNINGS", "ignore")
    if extra:
        env.update(extra)
    return env


_loaded = {}


def load_selfies():
    """Import selfies from the tree under test and return the package.
    Asserts that the imported files really come from that tree."""
    if "sf" in _loaded:
        return _loaded["sf"]
    rp = repo_path()
    if rp in sys.path:
        sys.path.remove(rp)
    sys.path.insert(0, rp)
    import selfies as sf
    f = os.path.abspath(sf.__file__)
    if not f.startswith(rp + os.sep):
        raise RuntimeError("selfies imported from %s, expected under %s" % (f, rp))
    _loaded["sf"] = sf
    return sf


class StrSub(str):
    """What callers really pass: numpy.str_, pandas values, enum members ... are str subclasses."""
    __slots__ = ()


# public functions whose call form is varied: name -> parameter names in declared order
_FORMS = {"decoder": ("selfies", "compatible", "attribute"), "encoder": ("smiles", "strict", "attribute"),
          "len_selfies": ("selfies",), "split_selfies": ("selfies",),
          "selfies_to_encoding": ("selfies", "vocab_stoi", "pad_to_len", "enc_type"),
          "encoding_to_selfies": ("encoding", "vocab_itos", "enc_type"),
          "get_preset_constraints": ("name",), "set_semantic_constraints": ("bond_constraints",)}


class VariedAPI(object):
    """The package seen through the call forms of an everyday caller.  Every call of the listed public functions
    goes to the real function with the same argument VALUES; in a share of the calls the form differs: leading
    argument by keyword, flags positionally, string arguments as instances of a str subclass.  On a tree where the
    property holds the form cannot matter, so no oracle changes.  Everything else is forwarded untouched."""

    def __init__(self, sf, seed, p=0.12):
        import inspect
        import random
        object.__setattr__(self, "_sf", sf)
        object.__setattr__(self, "_rng", random.Random(seed))
        object.__setattr__(self, "_p", p)
        names = {}
        for fn, params in _FORMS.items():
            try:
                sig = inspect.signature(getattr(sf, fn)).parameters
            except (AttributeError, TypeError, ValueError):
                continue
            real = tuple(sig)
            # only vary what the tree under test declares exactly like this: same names, same order, every one of
            # them usable both by position and by keyword (a signature change is an API decision, not a property)
            if real[:len(params)] == params and all(sig[k].kind == inspect.Parameter.POSITIONAL_OR_KEYWORD for k in params):
                names[fn] = params
        object.__setattr__(self, "_names", names)
        object.__setattr__(self, "varied_calls", 0)

    def __getattr__(self, name):
        v = getattr(self._sf, name)
        params = self._names.get(name)
        if params is None:
            return v
        rng, p = self._rng, self._p

        def call(*args, **kwargs):
            x = rng.random()
            if x >= p or len(args) > len(params):
                return v(*args, **kwargs)
            object.__setattr__(self, "varied_calls", self.varied_calls + 1)
            args = list(args)
            if x < p * 0.4:
                args = [StrSub(a) if type(a) is str else a for a in args]
                kwargs = {k: (StrSub(a) if type(a) is str else a) for k, a in kwargs.items()}
                return v(*args, **kwargs)
            if x < p * 0.75:
                # everything by keyword
                kw = dict(kwargs)
                for k, a in zip(params, args):
                    kw[k] = a
                return v(**kw)
            # flags positionally, in declared order, as far as they are given without a gap
            kw = dict(kwargs)
            for k in params[len(args):]:
                if k not in kw:
                    break
                args.append(kw.pop(k))
            return v(*args, **kw)
        return call

    def __setattr__(self, name, value):
        setattr(self._sf, name, value)


def varied(sf, ctx):
    api = VariedAPI(sf, "%s/%s/%s/forms" % (ctx.seed, ctx.prop, ctx.shard))
    ctx.apis.append(api)
    return api


def mods():
    """The modules of the code under test (the package rebinds the names
    `encoder` / `decoder` to functions, so go through sys.modules)."""
    load_selfies()
    names = ["selfies.decoder", "selfies.encoder", "selfies.grammar_rules",
             "selfies.mol_graph", "selfies.bond_constraints",
             "selfies.utils.smiles_utils", "selfies.utils.matching_utils",
             "selfies.utils.selfies_utils", "selfies.utils.encoding_utils",
             "selfies.compatibility", "selfies.constants"]
    out = {}
    for n in names:
        out[n.split(".")[-1]] = sys.modules.get(n)
    return out
