"""G1: small-scope symbol sets and tables for exhaustive enumeration, and the
dataset loader for G3 (workload only, never an oracle)."""
import csv
import glob
import itertools
import os

from vmon import env
from vmon.tablegen import PRESETS

SETS = {
    # every rule, every prefix kind, an unknown symbol, the dot
    "core": ['[C]', '[=C]', '[#N]', '[O]', '[F]', '[Branch1]', '[=Branch1]', '[#Branch2]',
             '[Ring1]', '[=Ring1]', '[Ring2]', '[epsilon]', '[N+1]', '[/C]', '[-\\Ring1]',
             '[C@@H1]', '[Xx]', '.'],
    # capacities 0, 10, 12 under table "wide": states up to 12, dropped atoms
    "highcap": ['[=S]', '[Xe]', '[I-1]', '[NH1]', '[CH5]', '[#P]', '[Branch1]', '[#Branch1]',
                '[Ring1]', '[#Ring1]', '[C]', '[=O]', '[Zr]', '.'],
    # index arithmetic: branch / ring symbols of length 1-3 and many digits
    "index": ['[C]', '[Ring1]', '[Ring2]', '[Branch1]', '[=Branch1]', '[#Branch1]', '[Branch2]',
              '[O]', '[=N]', '[#C]', '[S]', '[P]', '[Ring3]', '[Branch3]', '[F]', '[nop]'],
    # stereo prefixes on atoms and ring symbols, chiral atoms
    "stereo": ['[C]', '[/C]', '[\\C]', '[C@]', '[C@@H1]', '[//Ring1]', '[/\\Ring1]', '[-/Ring1]',
               '[\\-Ring2]', '[=Ring1]', '[Ring1]', '[Branch1]', '[N]', '[=C]', '[\\N+1]'],
}

TABLES = {
    "default": PRESETS["default"],
    "octet_rule": PRESETS["octet_rule"],
    "hypervalent": PRESETS["hypervalent"],
    "wide": {"?": 12, "C": 4, "N": 3, "O": 2, "S": 10, "Xe": 0, "I-1": 0, "F": 1, "P": 5,
             "N+1": 4, "H": 1, "Zr": 2},
    "tight": {"?": 1, "C": 2, "N": 1, "O": 0, "F": 0, "N+1": 12, "S": 3, "P": 2},
}


def enumerate_scope(symbols, max_len, shard, nshards, min_len=0):
    """All strings over `symbols` of length min_len..max_len, this shard's part."""
    i = 0
    for L in range(min_len, max_len + 1):
        for tup in itertools.product(symbols, repeat=L):
            if i % nshards == shard:
                yield "".join(tup)
            i += 1


def scope_size(symbols, max_len, min_len=0):
    return sum(len(symbols) ** L for L in range(min_len, max_len + 1))


_DATASET = {}


def dataset_smiles(limit_per_file=400):
    """SMILES of the repository's own test sets (first rows of each file)."""
    key = limit_per_file
    if key in _DATASET:
        return _DATASET[key]
    out = []
    root = os.path.join(env.repo_path(), "tests", "test_sets")
    for f in sorted(glob.glob(os.path.join(root, "**", "*.csv"), recursive=True)):
        try:
            with open(f, newline="") as fh:
                rd = csv.DictReader(fh)
                if not rd.fieldnames:
                    continue
                col = None
                for c in rd.fieldnames:
                    if c.strip().lower() in ("smiles", "smile", "isosmiles"):
                        col = c
                        break
                if col is None:
                    continue
                for i, row in enumerate(rd):
                    if i >= limit_per_file:
                        break
                    s = (row.get(col) or "").strip()
                    if s:
                        out.append(s)
        except (OSError, csv.Error, UnicodeDecodeError):
            continue
    _DATASET[key] = out
    return out
