"""C11 - translation is a pure function of the input and the current table.
History + fresh-interpreter comparison (forked from a zygote that has imported
selfies and made no call), several hash seeds."""
import re

from vmon.aromgen import standard_system, benzenoid_system
from vmon import env, tablegen
from vmon.fresh import Zygote
from vmon.histgen import ApiModel
from vmon.hooks import call_guard, cache_probe
from vmon.molgen import random_tree_mol, spell
from vmon.oracles import compare_with_reference, judge_output
from vmon.refsem import ref_decode, RefReject
from vmon.selfgen import LiveGen
from vmon.zygote import jsonable

ID = "C11"
LEVEL = "exploration"
RULE = ("random API histories of 5-60 calls (set preset/custom/invalid tables, getters, caller-side mutation of returned and passed "
        "objects, encodes and decodes with any flags incl. failing ones) ending in 9 probe translations whose symbols and "
        "(element, charge) pairs were used earlier in the history under other tables, so that every memo layer is warm; each probe "
        "result is compared with (a) the reference derivation under the table get_semantic_constraints() reports and (b) the same "
        "call in a fresh interpreter (forked from an untouched zygote) set to that table (encoder: left at the default table), under "
        "PYTHONHASHSEED 0-4, and repeated in-process. distinct = distinct history; non-trivial = history with >= 2 accepted table changes")
ASSUMPTIONS = ["a forked child of a process that has imported selfies and made no API call is a fresh interpreter",
               "attribution objects are compared field by field"]


def shards(tier):
    return 16


def floors(tier):
    return {"histories": 200, "probes_compared_fresh": 2000, "probes_compared_reference": 1000,
            "histories_with_warm_capacity_cache_before_switch": 100, "histories_with_atom_cache_growth": 100,
            "set:hashseeds": 5, "histories_with_rejected_update": 100, "histories_with_caller_mutation": 100, "soak_distinct_symbols": 100000}


ELS_SAT = ["S", "P", "N", "C", "O", "Cl", "B", "Fe", "Xe", "Zr", "Si", "I", "N+1", "S+1", "P-1", "O+1", "C-1", "Sn", "As", "Se"]


def call(sf, kind, x, flags):
    fn = (lambda: sf.decoder(x, **flags)) if kind == "d" else (lambda: sf.encoder(x, **flags))
    r = call_guard(fn, expected=(sf.DecoderError, sf.EncoderError))
    if r[0] == "ok":
        return ["ok", jsonable(r[1])]
    if r[0] == "err":
        return ["err", r[1]]
    return ["esc", r[1]]


def run(ctx):
    sf = env.varied(env.load_selfies(), ctx)
    rng = ctx.rng
    quick = ctx.tier == "quick"
    zyg = [Zygote(h) for h in range(5)]
    base_atoms = cache_probe()["atom_cache"]
    # pools: strings whose symbols recur across histories (novel isotopes make cache misses too)
    tabs = [tablegen.PRESETS["default"], tablegen.PRESETS["hypervalent"], {"?": 12, "C": 2, "S": 3}, {"?": 1, "N+1": 6}]
    pool_d = []
    for t in tabs:
        g = LiveGen(t, rng)
        pool_d += [g.string(rng.choice([1, 2]), rng.choice([8, 25, 60])) for _ in range(25)]
    # refused strings whose error is met deep inside nested branches (whatever a call had set up on the way in, it must
    # be gone after the exception), and a very long one
    pool_d += ["[S][Branch1][P]" * d + "[Foo]" + "[C]" * 3 for d in (40, 150, 400)]
    pool_d += ["[S][=Branch1][P]" * 300 + "[Branch9]", "[C][C][Ring1][C]" * 50 + "[CH9]"]
    pool_e = []
    for _ in range(40):
        m = random_tree_mol(rng, rng.choice([4, 8, 16]), p_ring=0.2, p_bracket=0.3)
        pool_e.append(spell(m, rng)[0])
    # aromatic inputs too (standard, anchored and exotic kinds, hypervalent aromatic S / P): kekulization must not
    # look at the table either
    from vmon.aromgen import standard_system, substituted_system, ANCHORED, EXOTIC
    for _ in range(30):
        m = rng.choice([lambda: standard_system(rng)[0], lambda: substituted_system(rng, EXOTIC)[0],
                        lambda: substituted_system(rng, ANCHORED)[0]])()
        pool_e.append(spell(m, rng)[0])
    pool_e += ["O=s1cccc1", "c1ccs(=O)cc1", "O=p1ccccc1", "c1ccp(=O)(C)cc1", "O=s1(=O)cccc1", "c1cc[se](=O)c1", "Cn1cccc1", "O=[n+]1ccccc1"]
    M = ApiModel(ctx, sf, check_model=False)
    if ctx.shard % 4 == 1:
        # a long-lived process: very many distinct symbols and atoms have gone through both translators
        for k in range(140000):
            call_guard(lambda: sf.decoder("[%dC][%dN+1][O]" % (k, k % 977)), expected=(sf.DecoderError,))
        for k in range(20000):
            call_guard(lambda: sf.encoder("[%dCH2][%dO-]" % (k, k % 313), strict=False), expected=(sf.EncoderError,))
        ctx.count("soak_distinct_symbols", 140000)
    try:
        for h in range(80 if quick else 4000):
            M.reset()
            c0 = cache_probe()
            warm_before_switch = False
            nsets = 0
            flags = set()
            for step in range(rng.randint(5, 60)):
                pre = cache_probe()
                n_before = (ctx.counters["ops.set_custom"] + ctx.counters["ops.set_preset"] + ctx.counters["ops.set_neighbour"], ctx.counters["ops.set_invalid"],
                            sum(v for k, v in ctx.counters.items() if k.startswith("mutations.")))
                M.step(rng, pool_d, pool_e)
                n_after = (ctx.counters["ops.set_custom"] + ctx.counters["ops.set_preset"] + ctx.counters["ops.set_neighbour"], ctx.counters["ops.set_invalid"],
                           sum(v for k, v in ctx.counters.items() if k.startswith("mutations.")))
                if n_after[0] > n_before[0]:
                    nsets += 1
                    if pre["capacity"] and pre["capacity"][3] > 0:
                        warm_before_switch = True
                if n_after[1] > n_before[1]:
                    flags.add("rej")
                if n_after[2] > n_before[2]:
                    flags.add("mut")
            c1 = cache_probe()
            if warm_before_switch:
                ctx.count("histories_with_warm_capacity_cache_before_switch")
            if (c1["atom_cache"] or 0) > (c0["atom_cache"] or 0) or (c1["atom_cache"] or 0) > (base_atoms or 0):
                ctx.count("histories_with_atom_cache_growth")
            if "rej" in flags:
                ctx.count("histories_with_rejected_update")
            if "mut" in flags:
                ctx.count("histories_with_caller_mutation")
            table = sf.get_semantic_constraints()
            sat = []
            for k in rng.sample(ELS_SAT, 3):
                sat.append(["d", "[%s]" % k + "[Branch1][C][F]" * 7 + "[=O]", {}])
            for _ in range(3):
                # any element x any charge, saturated in the middle of a chain: listed kinds, kinds whose neutral form
                # is listed but whose charge is not, kinds covered by '?' only
                k = tablegen.key_of(rng.choice(tablegen.ELS), rng.choice([0, 1, -1, 2, -2, 2, -2, 3, -3]))
                sat.append(["d", "[C][%s]" % k + rng.choice(["[C]", "[=C]", "[Branch1][C][F]"]) * rng.choice([2, 4, 7]) + "[=O]", {}])
            probes = sat + [["d", rng.choice(pool_d), {"attribute": rng.random() < 0.2}] for _ in range(6)] + \
                     [["e", rng.choice(pool_e), {"strict": False, "attribute": rng.random() < 0.2}] for _ in range(5)]
            # twin spellings: the same atoms in the same order, the same bonds, only the ring digits of some atoms written in
            # the other order (the neighbour lists differ, nothing else).  What the first leaves behind must not steer the second
            if rng.random() < 0.75:
                pm, _, _ = benzenoid_system(rng, rng.choice([4, 5, 6, 8, 10, 14]))     # peri-condensed: the matching search has choices
            else:
                pm, _, _ = standard_system(rng, nrings=rng.choice([4, 5, 6, 8, 10]), sizes=rng.choice([(6,), (6,), (5, 6, 6, 7)]), chords=0)
            s1 = spell(pm, rng, label_mode="smallest", variants=False)[0]
            s2 = re.sub(r"(?<=[a-z\]])(\d)(\d)", lambda mm: mm.group(2) + mm.group(1) if rng.random() < 0.7 else mm.group(0), s1)
            if s2 != s1:
                probes += [["e", s1, {"strict": False}], ["e", s2, {"strict": False}]]
                ctx.count("twin_spelling_probes")
            if h % 8 == 3:
                # scale: a molecule with 100 or more ring bonds (whatever the writer does with label 100 - finding F1 - it
                # does the same in a fresh interpreter)
                k_ = rng.choice([100, 120, 160])
                if rng.random() < 0.5:
                    probes.append(["d", rng.choice(["[C][C][C][Ring1][Ring1]", "[N][C][C][C][Ring1][Ring2]"]) * k_, {}])
                else:
                    # ... all of them inside one large ring that stays open from the first atom to the last
                    big = call_guard(lambda: sf.encoder("C1" + rng.choice(["C2CC2", "N2CC2", "C2CCC2"]) * k_ + "C1", strict=False), expected=(sf.EncoderError,))
                    if big[0] == "ok":
                        probes.append(["d", big[1], {}])
                ctx.count("probes_with_100_or_more_rings")
            res = [call(sf, k, x, fl) for k, x, fl in probes]
            again = [call(sf, k, x, fl) for k, x, fl in probes]
            payload = {"history": list(M.log[-80:]), "table": table}
            if again != res:
                ctx.finding("repeated-call-differs", payload, "the same call twice in a row gave different results")
            # (a) reference derivation under the reported table
            for (k, x, fl), r in zip(probes, res):
                if k != "d":
                    continue
                out = r[1][0] if (r[0] == "ok" and fl.get("attribute")) else (r[1] if r[0] == "ok" else None)
                try:
                    ref = ref_decode(x, table)
                except RefReject:
                    ref = None
                ctx.count("probes_compared_reference")
                if r[0] == "esc":
                    ctx.finding("escape:" + r[1], dict(payload, probe=x), "probe raised")
                elif (out is None) != (ref is None):
                    ctx.finding("result-differs-from-reference-under-current-table", dict(payload, probe=x), repr(r)[:200])
                elif ref is not None:
                    st, m, detail = judge_output(out, None, accept=lambda mm: compare_with_reference(mm, ref))
                    if st not in ("ok", "f1", "budget"):
                        ctx.finding("result-differs-from-reference-under-current-table", dict(payload, probe=x, output=out[:500]), detail)
            # (b) fresh interpreter
            z = zyg[h % len(zyg)]
            ctx.see("hashseeds", z.hashseed)
            fresh_d = z.run(table, [p for p in probes if p[0] == "d"], isolate=True)
            fresh_e = z.run(None, [p for p in probes if p[0] == "e"], isolate=True)
            fresh = [None] * len(probes)
            for i_, r_ in zip([i for i, p in enumerate(probes) if p[0] == "d"], fresh_d):
                fresh[i_] = r_
            for i_, r_ in zip([i for i, p in enumerate(probes) if p[0] == "e"], fresh_e):
                fresh[i_] = r_
            for p, a, b in zip(probes, res, fresh):
                ctx.count("probes_compared_fresh")
                if a != b:
                    ctx.finding("result-differs-from-fresh-interpreter", dict(payload, probe=p, hashseed=z.hashseed),
                                "after the history: %s ; fresh interpreter: %s" % (repr(a)[:300], repr(b)[:300]))
            ctx.count("histories")
            ctx.case(M.log, nsets >= 2, sample={"history": M.log[:10], "probes": [p[1][:60] for p in probes[:3]]} if nsets >= 2 else None)
    finally:
        for z in zyg:
            z.close()
    sf.set_semantic_constraints("default")


def replay(ctx, payload):
    sf = env.load_selfies()
    from vmon.props.c12 import replay_history
    M = ApiModel(ctx, sf, check_model=False)
    M.reset()
    replay_history(ctx, sf, M, payload["history"])
    ctx.findings.clear()
    if "probe" in payload:
        p = payload["probe"]
        if isinstance(p, str):
            p = ["d", p, {}]
        z = Zygote(payload.get("hashseed", 0))
        try:
            a = call(sf, p[0], p[1], p[2])
            b = z.run(sf.get_semantic_constraints() if p[0] == "d" else None, [p])[0]
            if a != b:
                ctx.finding("result-differs-from-fresh-interpreter", payload, "%r vs %r" % (a, b))
        finally:
            z.close()
