"""Shared SMILES -> SELFIES -> SMILES pipeline for C03 / C04 / C10."""
from vmon.hooks import MON, call_guard
from vmon.oracles import compare_roundtrip
from vmon.smiles_reader import (read_smiles, read_segmented, has_long_percent_run,
                                SmilesSyntaxError, SegmentationBudget)


def roundtrip(ctx, sf, s, table, check_stereo, src, payload_extra=None):
    """Returns (status, min, mout, selfies).  status in:
    'ok', 'gen_bug', 'enc_reject', 'violation'."""
    payload = {"smiles": s if len(s) < 3000 else s[:3000] + "...", "table": table, "src": src}
    if len(s) >= 3000:
        payload["smiles_full"] = s
    if payload_extra:
        payload.update(payload_extra)
    try:
        min_ = read_smiles(s)
    except SmilesSyntaxError as e:
        ctx.count("GEN_BUG")
        ctx.finding("generator-bug", payload, "independent reader rejects the generated input: %s" % e)
        return "gen_bug", None, None, None
    r = call_guard(lambda: sf.encoder(s), expected=(sf.EncoderError,))
    for mon, msg in MON.drain():
        ctx.finding("monitor-" + mon, payload, msg)
    if r[0] == "err":
        ctx.count("encoder_rejects")
        return "enc_reject", min_, None, None
    if r[0] == "esc":
        ctx.finding("escape:%s@%s" % (r[1], r[2]), payload, r[3])
        return "violation", min_, None, None
    x = r[1]
    d = call_guard(lambda: sf.decoder(x), expected=(sf.DecoderError,))
    for mon, msg in MON.drain():
        ctx.finding("monitor-" + mon, dict(payload, selfies=x[:2000]), msg)
    if d[0] != "ok":
        ctx.finding("decoder-rejects-encoder-output", dict(payload, selfies=x[:2000]), repr(d)[:300])
        return "violation", min_, None, x
    out = d[1]
    try:
        mout = read_smiles(out)
    except SmilesSyntaxError as e:
        mout = None
        if has_long_percent_run(out):
            # >= 100 ring labels: the writer's '%100' text (known finding F1 of
            # C01/C02); the molecule is still judged through the segmentation search
            try:
                for m2 in read_segmented(out, max_parses=200):
                    if compare_roundtrip(min_, m2, check_stereo=check_stereo) is None:
                        ctx.count("f1_outputs_preserved")
                        return "ok", min_, m2, x
                    if mout is None:
                        mout = m2
            except SegmentationBudget:
                ctx.count("segmentation_budget")
                return "ok", min_, None, x
        if mout is None:
            ctx.finding("output-unreadable", dict(payload, selfies=x[:2000], output=out[:2000]), str(e))
            return "violation", min_, None, x
    diff = compare_roundtrip(min_, mout, check_stereo=check_stereo)
    if diff is not None:
        ctx.finding("roundtrip-" + diff[0], dict(payload, selfies=x[:2000], output=out[:2000]), diff[1])
        return "violation", min_, mout, x
    return "ok", min_, mout, x
