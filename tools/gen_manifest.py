#!/usr/bin/env python3
"""Regenerates MANIFEST.json from the table below (kept in one place so the
file stays valid and consistent with what is built)."""
import json
import os

ROOT = os.path.dirname(os.path.dirname(os.path.abspath(__file__)))

BASELINE = ("cd /repo && /venv/bin/python -m pytest -ra -q -p no:cacheprovider --timeout=900 "
            "--continue-on-collection-errors")

TRUST = ("independent SMILES reader and reference derivation in vmon/ (share no code with selfies); "
         "the real selfies code from /repo's working tree is what runs; sampled, not exhaustive, unless stated")

CHECKS = {
    "C01": dict(
        technique="runtime monitoring: strict independent re-read + valence recount of every decoder output; in-call graph-invariant (M1), writer (M2) and derivation-contract (M3) monitors; RDKit sanitizer on robust-alphabet outputs",
        text="held on every decoder execution of the run: all strings up to length 4-5 over four symbol sets under five tables, live / ring-dense / many-fragment strings under random, neighbouring and caller-mutated tables (dict subclasses, huge capacities, '?' anywhere), mutated dataset strings, repeated and flag-variant calls; every output re-read strictly and its valences recounted against the table the API reports. Known finding F1 keyed by mechanism. Scale: strings of several thousand symbols, tables listing hundreds of atom kinds.",
        ref="5 C01"),
    "C02": dict(
        technique="runtime monitoring with a reference model: every decoder call is compared at molecule level with an independent executable rendering of the documented derivation",
        text="the quantifier's own bounded part is enumerated (all strings up to length 4-5 over four symbol sets covering every rule and state, five tables), live / mutated / index-sensitive strings beyond, soak phase after 140k distinct symbols; atoms, bonds, orders, stereo marks and written neighbour order compared with the reference derivation; other flag combinations must return the same text. Known finding F1. Scale: single fragments of 4 200-9 000 symbols, nesting 120-300 deep.",
        ref="5 C02"),
    "C03": dict(
        technique="runtime monitoring: round trip through the real encoder and decoder, both sides read by an independent SMILES reader and compared atom by atom; M1 recount of the encoder's graph, M2 writer monitor",
        text="held on every round trip of the run: DFS and random-spanning-tree spellings of random molecules (digits after branches, all-parenthesised neighbours, zero-padded numbers, %nn labels) under random tables, aromatic systems with their aromatic assignment compared, macrocycles / long branches with 1-3 index symbols (spans below 16^3), every ring/branch symbol family, many-fragment molecules, dataset molecules in original and re-spelled form; both sides read by the independent reader. Scale: random molecules of 150 / 400 atoms, up to 40 fragments; hydrogens written as atoms; upper-case ':' spellings of aromatic systems.",
        ref="5 C03"),
    "C04": dict(
        technique="runtime monitoring: neighbour-order parity oracle over independently read input and output (no chemistry), stereo-dense workload",
        text="held on every stereo round trip of the run: chiral centres (ring-opening, ring-closing, both, first atom, with H, hypervalent with 5-6 neighbours) and double-bond marks incl. either end of ring closures, judged by neighbour-order parity on independently read input and output, under all encoder flag combinations and repeated translation. Scale: molecules of 60 / 200 atoms.",
        ref="5 C04"),
    "C05": dict(
        technique="runtime monitoring: exact perfect-matching oracle on every call of the matching routine (M4) and on generator-known pi-demand sets; order-independence over 4-8 spellings",
        text="four oracles from strongest to weakest input class (matching routine on every call, standard kinds with completeness, anchored charged/radical kinds, exotic kinds by locality); fullerene and other cubic cages, poly-aryl and linked systems, isotope-labelled atoms, multi-fragment and large (several hundred pi-atoms) inputs; order independence over 3-8 spellings. Known findings F3 (with rate ceiling) and F4 keyed by mechanism. Benzenoids (random polyhexes, peri-condensed, Kekulean or not), upper-case ':' spellings, inputs with more than a thousand pi-atoms.",
        ref="5 C05"),
    "C06": dict(
        technique="runtime monitoring: independent valence count against the table reported by the API; molecules generated around capacity; table switched between calls with cache probes (M5)",
        text="held on every (table, molecule) pair of the run: margins -3..+3 around the capacity, charged / explicit-H / '?'-only atoms, kekulizable aromatic systems; tables set the hostile way (caller dict types, later mutation, rejected update after set, presets by name); strict verdict re-judged after a table switch and against the table the API reports. Chirality and stereo bonds on the molecules (also above capacity), molecules of 80 / 300 atoms.",
        ref="5 C06"),
    "C07": dict(
        technique="runtime monitoring: alphabet content against a model, every symbol decoded alone, random strings over the alphabet judged by the C01 oracle, tables switched between calls",
        text="held on every accepted table of the run incl. multi-digit and zero-containing charges, capacities 0-20 and 'no limit' integers up to 10^30, '?' in any position; alphabet content against a model, every symbol decoded alone, random strings over the alphabet judged by the C01 oracle, neighbouring tables and rejected updates between reads.",
        ref="5 C07"),
    "C08": dict(
        technique="runtime monitoring: exception tap at the API boundary (M9), sys.monitoring logical-step bound (M7), global-table probe (M5); atheris coverage-guided fuzzing in the thorough tier",
        text="held on every hostile decoder call of the run under all four flag combinations plus an atheris campaign; termination decided in line events (sys.monitoring), never wall clock - a fuzz input on which the fuzzing process stalls is handed back and judged under the step bound. Known finding F5. Both bounds: line events (M7) and CPU time of the single-threaded worker (time spent inside one statement, e.g. a backtracking regular expression); presets and reported table probed around every call; soak of 20 000 distinct symbols under a custom table.",
        ref="5 C08"),
    "C09": dict(
        technique="runtime monitoring: exception tap at the API boundary (M9), sys.monitoring logical-step bound (M7), matching judge (M4) for the F3 mechanism key; atheris in the thorough tier",
        text="held on every hostile encoder call of the run under all four flag combinations (incl. large aromatic inputs of several hundred pi-atoms) plus an atheris campaign; same termination rule as C08. Known findings F9, F3. CPU-time bound as in C08; any element in aromatic positions; the same polycyclic fragment replicated 260-420 times.",
        ref="5 C09"),
    "C10": dict(
        technique="runtime monitoring: emitted tokens judged by the reference symbol grammar, decode + re-encode fixpoint, paired spellings from two PRNG streams",
        text="held on every accepted SMILES of the run: extreme atoms (118 elements, charges to +-101, isotopes to 1000, H to 9, zero-padded numbers), index lengths 1-3, every symbol family, aromatic systems under tight tables, first sight of a symbol under another table; emitted tokens judged by the reference grammar, decode + re-encode fixpoint, questionable ring closures, molecules with >= 100 rings. Known finding F1 (fixpoint fails once the decoder has to write ring label 100). Long branches and rings inside other branches (inner length 15-3 900, depth 1-3), molecules of 150 / 400 atoms.",
        ref="5 C10"),
    "C11": dict(
        technique="runtime monitoring: API histories; each final translation compared with the reference derivation under the reported table and with a fresh interpreter forked from an untouched zygote, hash seeds 0-4",
        text="held on every history of the run (5-60 calls: warm caches, table walks, rejected updates incl. non-string keys, caller-side mutation, utility calls); 9 probes each compared with the reference derivation under the reported table and with a fresh interpreter forked from an untouched zygote, hash seeds 0-4; soak phase. One fresh child per probe; twin spellings of benzenoids; probes with 100-160 rings; refused strings that fail deep inside nested branches.",
        ref="5 C11"),
    "C12": dict(
        technique="runtime monitoring: history checker against a dict/set model of the configuration API; every object crossing the boundary is really mutated; atomicity observed before/after each rejected update",
        text="held on every history of the run against a dict/set model (types compared, not only values); invalid updates of every documented kind incl. the get-tweak-set form (table in force with one entry made invalid), fresh probes after each rejection; known finding F12 keyed by the model's shadow of the caller's own mutations. Tables and invalid updates in every caller dict type (OrderedDict, defaultdict, Counter, subclass).",
        ref="5 C12"),
    "C13": dict(
        technique="runtime monitoring: differential outcome check of [nop] placements (forced into every index position, after every branch/ring symbol, fragment edges, random, exhaustive single insertions) with a tokenizer tap (M6)",
        text="held on every [nop] variant of the run (forced into every index position, after every branch/ring symbol, fragment edges, random, exhaustive single insertions, runs of 300-5000) of base strings incl. raising ones, under all flag combinations, after a 140k-symbol soak, plus padding round trips through the encoding utilities with pipeline-style vocabularies. Chains nested 300-4 000 deep with padding; bases of 400-1 200 symbols.",
        ref="5 C13"),
    "C14": dict(
        technique="runtime monitoring: utilities compared with the harness's own tokenisation on random well-formed strings; tokenizer tap (M6) on the decoder",
        text="held on every string / collection of the run incl. Unicode, control characters, empty bodies, str-subclass elements, sets / dict keys / iterators as collections, and the same strings again after they went through the encoding utilities and the decoder; decoder token tap and cited tokens. Scale: strings of 1 000-6 000 symbols, collections of 100-400 strings; encoder outputs under every flag combination.",
        ref="5 C14"),
    "C15": dict(
        technique="runtime monitoring: 10-line reference model of the encodings, inverse and batch laws, error paths",
        text="held on every (vocabulary, string, pad, enc_type) case of the run: shuffled insertion order, one vocabulary object changed in place, defaults and keyword forms, batch laws, error paths (missing symbol, bad enc_type, ragged vector, label outside 0..n-1). Scale: vocabularies of 300-2 000 symbols, strings of 100-600 symbols, pads to 1 000, batches of 20.",
        ref="5 C15"),
    "C16": dict(
        technique="runtime monitoring, exhaustive over the stated finite space: all n < 65536, all 37^3 symbol triples, every Q < 4096 through crafted ring/branch strings and macrocycle / long-branch SMILES",
        text="exhaustive for 0 <= n < 16^4 and all 37^3 triples (16 index symbols, 20 non-index symbols incl. near misses, missing) at helper level and for every Q < 16^3 at API level (decoder ring sizes and branch lengths, 1-3 index symbols), sampled n up to 16^70 around every power of 16 and 2, truncated reads, index symbols straddling a branch end judged by the reference derivation, ring sizes / branch lengths up to 4097 at API level (encoder).",
        ref="5 C16"),
    "C17": dict(
        technique="runtime monitoring: attribution entries checked against the output text, the input tokenisation and the reference derivation's frame stack",
        text="held on every decoder and encoder input of the run: multi-fragment (many fragments), [nop], nested branches, fragments ending inside index reads, compatible=True; entries checked against the output text, the input tokenisation and the reference derivation's frame stack (exact attribution lists). Scale: molecules of 120 / 300 atoms, 40 fragments.",
        ref="5 C17"),
    "C18": dict(
        technique="runtime monitoring: differential check against the harness's own moderniser; reachedness of legacy symbols decided by the reference derivation",
        text="held on every mixed string of the run covering all 21 legacy branch/ring forms and the legacy atom spellings, six tables, empty fragments, caller vocabularies built on the library's alphabet; differential against the harness's own moderniser, reachedness decided by the reference derivation of the raw string. Scale: strings of 200-2 500 tokens, padding runs of 300-5 000 inside the strings.",
        ref="5 C18"),
    "C19": dict(
        technique="runtime monitoring under thread stress: barrier start, 1 us switch interval, sys.monitoring yield injection; every result compared with the same call alone in a forked fresh interpreter; overlaps and in-repo thread switches measured",
        text="held on every concurrent call of the run: rounds of 2-16 threads, barrier start, 1 us switch interval, yield injection focused on one source file at a time, novel symbols, ~37 never-seen inputs per round started by all threads at once or staggered; each result compared with the same call alone in a forked fresh interpreter; overlaps and in-repo thread switches measured (floors). Refused calls (errors met 250-600 branches deep) in every thread; serial truth from one fresh child per job.",
        ref="5 C19"),
}

PENDING = {}


def numbers(pid):
    """What the last committed quick run observed (from the evidence file the check itself wrote)."""
    try:
        e = json.load(open(os.path.join(ROOT, "evidence", pid + ".json")))
        c = e["coverage"]
        return " Last committed %s run (seed %s): %d executions, %d distinct non-trivial." % (
            e.get("tier", "?"), e.get("seed", "?"), c["evaluations"], c["distinct_nontrivial"])
    except Exception:
        return ""


def main():
    props = [json.loads(l) for l in open(os.path.join(ROOT, "properties.jsonl"))]
    checks = []
    na = []
    for p in props:
        pid = p["id"]
        if pid in CHECKS:
            c = CHECKS[pid]
            checks.append({
                "property_id": pid,
                "quick_cmd": "./check %s --tier quick" % pid,
                "thorough_cmd": "./check %s --tier thorough" % pid,
                "evidence_file": "evidence/%s.json" % pid,
                "replay_cmd_template": "./check %s --replay {path}" % pid,
                "engine": "vmon",
                "level_claimed": {"category": c.get("category", "exploration"), "text": c["text"] + numbers(pid),
                                  "design_ref": "DESIGN.md section " + c["ref"]},
                "level_note": c.get("note", TRUST),
                "technique": c["technique"],
            })
        else:
            na.append({"property_id": pid, "reason": PENDING.get(pid, "check not built yet (work in progress); the design in DESIGN.md section 5 applies")})
    man = {
        "version": 1,
        "setup_cmd": "./setup.sh",
        "hooks": {
            "guard": "SELFIES_VERIF",
            "enable": "no source hooks: every monitor attaches from the harness by rebinding module attributes or through sys.monitoring; workers export SELFIES_VERIF=1 for symmetry only",
            "baseline_off_cmd": BASELINE,
            "source_commits": [],
            "add_only": True,
        },
        "engines": [{
            "name": "vmon", "path": "vmon/",
            "serves_properties": [c["property_id"] for c in checks],
            "kind_free_text": "runtime monitoring harness: sharded worker processes run the real selfies code from /repo under generated hostile workloads while independent oracles (SMILES reader, reference derivation, exact matcher, configuration model) and in-call monitors (graph invariants, writer re-read, derivation contracts, matching judge, sys.monitoring step counter and yield injector) observe every call",
        }],
        "checks": checks,
        "not_applicable": na,
        "notes": "exit 0 held / 1 VIOLATION / 2 inconclusive (never on the unchanged tree). known_findings.json lists genuine defects by mechanism.",
    }
    with open(os.path.join(ROOT, "MANIFEST.json"), "w") as fh:
        json.dump(man, fh, indent=1)
        fh.write("\n")


if __name__ == "__main__":
    main()
