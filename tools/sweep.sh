#!/bin/bash
# tools/sweep.sh <tier> <seed...>  - every check for each seed; prints non-held lines only
cd "$(dirname "$0")/.."
tier="$1"; shift
for seed in "$@"; do
  for p in C01 C02 C03 C04 C05 C06 C07 C08 C09 C10 C11 C12 C13 C14 C15 C16 C17 C18 C19; do
    out=$(VERIF_SEED=$seed VMON_NO_EVIDENCE=1 ./check $p --tier $tier 2>&1); rc=$?
    if [ $rc -ne 0 ]; then echo "seed=$seed $p rc=$rc"; echo "$out" | grep -E '^(VIOLATION|INCONCLUSIVE)' | cut -c1-400 | head -5; fi
  done
  echo "seed=$seed done $(date +%T)"
done
