"""C12 - configuration API: faithful set/get, atomic rejection, no aliasing.
History checker: the real API against a dict/set model (vmon/histgen.py)."""
import ast

from vmon import env, tablegen
from vmon.histgen import ApiModel, F12
from vmon.hooks import call_guard
from vmon.molgen import random_tree_mol, spell
from vmon.selfgen import LiveGen

ID = "C12"
LEVEL = "exploration"
RULE = ("random histories of 5-40 calls over {set preset, set custom table, set invalid update (20 kinds), get constraints, get "
        "preset, get alphabet, mutate every returned or passed object, probe decodes, encodes/decodes with any flags}; after every "
        "call the real API's observable state (return values, raised types, table, alphabet, 11 probe decodes) is compared with a "
        "dict/set model; rejected updates are checked for atomicity by observing everything before and after. distinct = distinct "
        "history (call list); non-trivial = history with at least one accepted change, one rejected update and one caller-side mutation")
ASSUMPTIONS = ["the model: set stores a copy, get returns a copy, presets are constants, alphabet is recomputed from the model table",
               "the only listed defect is F12 (the cached alphabet set is handed out): an alphabet disagreement that equals the model "
               "alphabet plus/minus the caller's own mutations since the last table change"]


def shards(tier):
    return 16


def floors(tier):
    return {"histories": 300, "ops.set_invalid": 500, "atomic_rejections_verified": 500, "ops.get_table": 300,
            "ops.get_alphabet": 500, "mutations.returned_table": 200, "mutations.returned_alphabet": 150,
            "mutations.passed_table": 100, "mutations.returned_preset": 100, "ops.probe_decode": 300,
            "set:invalid_reasons": 8}


def pools(sf, rng):
    g = LiveGen(sf.get_semantic_constraints(), rng)
    pool_d = [g.string(rng.choice([1, 2]), rng.choice([8, 25])) for _ in range(40)]
    pool_e = []
    for _ in range(30):
        m = random_tree_mol(rng, rng.choice([4, 8, 16]), p_ring=0.2)
        pool_e.append(spell(m, rng)[0])
    return pool_d, pool_e


def run(ctx):
    sf = env.varied(env.load_selfies(), ctx)
    rng = ctx.rng
    quick = ctx.tier == "quick"
    pool_d, pool_e = pools(sf, rng)
    M = ApiModel(ctx, sf)
    for h in range(300 if quick else 15000):
        M.reset()
        ca = getattr(sf.get_semantic_robust_alphabet, "cache_clear", None)
        if ca:
            ca()   # a fresh history starts with a clean alphabet cache (not part of the history)
        flags = set()
        nsteps = rng.randint(5, 40)
        for _ in range(nsteps):
            before = (ctx.counters["ops.set_custom"] + ctx.counters["ops.set_preset"] + ctx.counters["ops.set_neighbour"], ctx.counters["ops.set_invalid"],
                      sum(v for k, v in ctx.counters.items() if k.startswith("mutations.")))
            M.step(rng, pool_d, pool_e)
            after = (ctx.counters["ops.set_custom"] + ctx.counters["ops.set_preset"] + ctx.counters["ops.set_neighbour"], ctx.counters["ops.set_invalid"],
                     sum(v for k, v in ctx.counters.items() if k.startswith("mutations.")))
            for i in range(3):
                if after[i] > before[i]:
                    flags.add(i)
        # final full comparison
        M.op_get_table(rng)
        M.op_get_alphabet(rng)
        M.op_probe_decode(rng)
        ctx.count("histories")
        ctx.case(M.log, len(flags) == 3, sample={"history": M.log[:12]} if len(flags) == 3 else None)
    sf.set_semantic_constraints("default")


def replay(ctx, payload):
    sf = env.load_selfies()
    M = ApiModel(ctx, sf)
    M.reset()
    ctx.notes["replay"] = "history re-executed against the model"
    replay_history(ctx, sf, M, payload["history"])


def replay_history(ctx, sf, M, hist):
    """Re-executes a recorded call list (best effort: the recorded list is the
    last <= 60 calls of the failing history)."""
    class FixedRng(object):
        def random(self):
            return 1.0
        def choice(self, seq):
            return seq[0]
    last_alpha = None
    for e in hist:
        op = e[0]
        if op == "set":
            call_guard(lambda: sf.set_semantic_constraints(e[1]))
            M.model = dict(tablegen.PRESETS[e[1]]) if isinstance(e[1], str) else dict(e[1])
            M.added, M.removed = set(), set()
        elif op == "set-invalid":
            try:
                v = ast.literal_eval(e[1])
            except Exception:
                continue
            before = M.observe()
            r = call_guard(lambda: sf.set_semantic_constraints(v))
            if r[0] == "ok":
                ctx.finding("invalid-update-accepted", {"history": hist}, e[1])
                M.model = sf.get_semantic_constraints()
            elif M.observe() != before:
                ctx.finding("rejected-update-not-atomic", {"history": hist}, e[1])
        elif op == "get":
            g = sf.get_semantic_constraints()
            if g != M.model:
                ctx.finding("get-differs-from-set", {"history": hist}, repr(g))
            last = g
        elif op == "mutate-returned-table":
            g = sf.get_semantic_constraints()
            g["C"] = 77
            g.pop("?", None)
        elif op == "get-preset":
            g = sf.get_preset_constraints(e[1])
            if g != tablegen.PRESETS[e[1]]:
                ctx.finding("preset-changed", {"history": hist}, repr(g))
        elif op == "mutate-returned-preset":
            g = sf.get_preset_constraints(e[1])
            g["N"] = 42
        elif op == "get-alphabet":
            last_alpha = sf.get_semantic_robust_alphabet()
            M.log = list(hist)
            M.op_get_alphabet(FixedRng())
        elif op == "mutate-returned-alphabet" and last_alpha is not None:
            last_alpha.add(e[1])
            last_alpha.discard(e[2])
            M.added.add(e[1]); M.removed.discard(e[1]); M.removed.add(e[2]); M.added.discard(e[2])
        elif op == "decode":
            call_guard(lambda: sf.decoder(e[1], **(e[2] if len(e) > 2 else {})), expected=(sf.DecoderError,))
        elif op == "encode":
            call_guard(lambda: sf.encoder(e[1], **(e[2] if len(e) > 2 else {})), expected=(sf.EncoderError,))
