"""M10: atheris/libFuzzer target (thorough tier of C08/C09)."""
import json
import os
import sys
import traceback
import warnings

import atheris

from vmon import env

with atheris.instrument_imports(include=["selfies"]):
    sf = env.load_selfies()

which = os.environ["FZ_TARGET"]
out = os.environ["FZ_OUT"]
seen = set()
stats = {"kind": "stats", "executions": 0, "returned": 0, "raised_expected": 0}
root = env.repo_path() + os.sep
warnings.simplefilter("ignore")


def flush_stats():
    tmp = out + ".stats.tmp"
    with open(tmp, "w") as fh:
        fh.write(json.dumps(stats))
    os.replace(tmp, out + ".stats")


def mech(e):
    tb = traceback.extract_tb(e.__traceback__)
    fr = [f for f in tb if f.filename.startswith(root)]
    f = fr[-1] if fr else tb[-1]
    return "%s@%s:%s" % (type(e).__name__, os.path.basename(f.filename), f.name)


def one(data):
    fdp = atheris.FuzzedDataProvider(data)
    flags = fdp.ConsumeIntInRange(0, 3)
    s = fdp.ConsumeUnicodeNoSurrogates(4096)
    stats["executions"] += 1
    if stats["executions"] % 1000 == 0:
        flush_stats()        # libFuzzer leaves through _exit(): no atexit handler would run
    try:
        if which == "encoder":
            sf.encoder(s, strict=bool(flags & 1), attribute=bool(flags & 2))
        else:
            sf.decoder(s, compatible=bool(flags & 1), attribute=bool(flags & 2))
        stats["returned"] += 1
    except (sf.EncoderError if which == "encoder" else sf.DecoderError):
        stats["raised_expected"] += 1
    except Exception as e:
        k = mech(e)
        if k not in seen:
            seen.add(k)
            with open(out, "a") as fh:
                fh.write(json.dumps({"kind": "escape", "mech": k, "input": s[:500], "flags": flags}) + "\n")


def main():
    flush_stats()
    atheris.Setup(sys.argv, one)
    atheris.Fuzz()


if __name__ == "__main__":
    main()
