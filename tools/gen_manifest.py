#!/usr/bin/env python3
"""Regenerates MANIFEST.json from the table below (kept in one place so the
file stays valid and consistent with what is built)."""
import json
import os

ROOT = os.path.dirname(os.path.dirname(os.path.abspath(__file__)))

BASELINE = ("cd /repo && /venv/bin/python -m pytest -ra -q -p no:cacheprovider --timeout=900 "
            "--continue-on-collection-errors")

TRUST = ("independent SMILES reader and reference derivation in vmon/ (share no code with selfies); "
         "the real selfies code from /repo's working tree is what runs; sampled, not exhaustive, unless stated")

CHECKS = {
    "C01": dict(
        technique="runtime monitoring: strict independent re-read + valence recount of every decoder output; graph-invariant (M1), writer (M2) and derivation-contract (M3) monitors inside the call; RDKit sanitizer on robust-alphabet outputs",
        text="held on ~0.8M (quick) / ~10M (thorough) decoder executions: all strings up to length 4-5 over four symbol sets under five tables, live/ring-dense/multi-fragment strings under random tables, mutated dataset strings; every output re-read strictly and valence-checked against the table in force. Exploration: says nothing about inputs not generated.",
        ref="5 C01"),
}

PENDING = {}


def main():
    props = [json.loads(l) for l in open(os.path.join(ROOT, "properties.jsonl"))]
    checks = []
    na = []
    for p in props:
        pid = p["id"]
        if pid in CHECKS:
            c = CHECKS[pid]
            checks.append({
                "property_id": pid,
                "quick_cmd": "./check %s --tier quick" % pid,
                "thorough_cmd": "./check %s --tier thorough" % pid,
                "evidence_file": "evidence/%s.json" % pid,
                "replay_cmd_template": "./check %s --replay {path}" % pid,
                "engine": "vmon",
                "level_claimed": {"category": c.get("category", "exploration"), "text": c["text"],
                                  "design_ref": "DESIGN.md section " + c["ref"]},
                "level_note": c.get("note", TRUST),
                "technique": c["technique"],
            })
        else:
            na.append({"property_id": pid, "reason": PENDING.get(pid, "check not built yet (work in progress); the design in DESIGN.md section 5 applies")})
    man = {
        "version": 1,
        "setup_cmd": "./setup.sh",
        "hooks": {
            "guard": "SELFIES_VERIF",
            "enable": "no source hooks: every monitor attaches from the harness by rebinding module attributes or through sys.monitoring; workers export SELFIES_VERIF=1 for symmetry only",
            "baseline_off_cmd": BASELINE,
            "source_commits": [],
            "add_only": True,
        },
        "engines": [{
            "name": "vmon", "path": "vmon/",
            "serves_properties": [c["property_id"] for c in checks],
            "kind_free_text": "runtime monitoring harness: sharded worker processes run the real selfies code from /repo under generated hostile workloads while independent oracles (SMILES reader, reference derivation, exact matcher, configuration model) and in-call monitors (graph invariants, writer re-read, derivation contracts, matching judge, sys.monitoring step counter and yield injector) observe every call",
        }],
        "checks": checks,
        "not_applicable": na,
        "notes": "exit 0 held / 1 VIOLATION / 2 inconclusive (never on the unchanged tree). known_findings.json lists genuine defects by mechanism.",
    }
    with open(os.path.join(ROOT, "MANIFEST.json"), "w") as fh:
        json.dump(man, fh, indent=1)
        fh.write("\n")


if __name__ == "__main__":
    main()
