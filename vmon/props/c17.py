"""C17 - attribution is observation-only and truthful about tokens."""
import collections

from vmon import env, tablegen
from vmon.aromgen import standard_system
from vmon.hooks import call_guard
from vmon.molgen import random_tree_mol, spell
from vmon.refsem import ref_decode, RefReject, tokens_with_dots
from vmon.selfgen import LiveGen
from vmon.smiles_reader import read_smiles, read_segmented, has_long_percent_run, SmilesSyntaxError, SegmentationBudget

ID = "C17"
LEVEL = "exploration"
RULE = ("decoder: live SELFIES strings (1-3 fragments, [nop] padding, nested branches, rings, fragments ending inside an index read) under "
        "presets and random tables; attribute=True must return the same SMILES, every entry's token must sit in the output ending at "
        "the reported index, every contributing (i, token) must be the i-th input symbol (not counting [nop] and '.'), and every output "
        "atom must be attributed to exactly its creating atom symbol plus its enclosing branch symbols (expected list from the reference "
        "derivation's frame stack). encoder: random molecules in random spellings and aromatic systems; same string with and without "
        "attribution; every (SELFIES atom symbol, SMILES atom token) pair computed independently (reader + reference derivation of the "
        "output) must be present. distinct = distinct input; non-trivial = decoder input with a branch or >= 2 fragments / encoder input with >= 4 atoms")
ASSUMPTIONS = ["output atoms are located in the SMILES by the independent reader's character spans",
               "encoder positions are not judged (the property claims tokens only)"]


def shards(tier):
    return 16


def floors(tier):
    return {"decoder_cases": 3000, "decoder_atoms_checked": 30000, "multi_fragment": 1000, "with_nop": 500, "nested_atoms": 3000,
            "fragment_ends_in_index_read": 100, "encoder_cases": 1500, "encoder_pairs_checked": 10000, "entries_checked": 50000, "outputs_with_percent_labels": 100, "compatible_cases": 3000}


def as_list(am):
    out = []
    for e in am:
        out.append((e.index, e.token, [(a.index, a.token) for a in (e.attribution or [])]))
    return out


def run(ctx):
    sf = env.varied(env.load_selfies(), ctx)
    rng = ctx.rng
    quick = ctx.tier == "quick"
    # ------------------------------------------------------------ decoder
    for it in range(1200 if quick else 50000):
        if it % 50 == 0:
            sf.set_semantic_constraints(rng.choice(["default", "hypervalent", "octet_rule", tablegen.random_table(rng)]))
            table = sf.get_semantic_constraints()
            g = LiveGen(table, rng, p_branch=0.22)
        x = g.string(nfrag=rng.choice([1, 2, 2, 3, 3, 11, 30]), length=rng.choice([5, 15, 40, 100]) if rng.random() < 0.8 else 6)
        if it % 8 == 7:
            x = g.string(nfrag=rng.choice([1, 2]), length=rng.choice([150, 300]), ring_dense=True)
        if rng.random() < 0.25:
            # end a fragment inside an index read
            frs = x.split(".")
            k = rng.randrange(len(frs))
            frs[k] += rng.choice(["[Ring2]", "[Branch3][C]", "[=Branch2]", "[Ring3][C][C]", "[C][Ring3]"])
            x = ".".join(frs)
            ctx.count("fragment_ends_in_index_read")
        payload = {"selfies": x, "table": table}
        p = call_guard(lambda: sf.decoder(x), expected=(sf.DecoderError,))
        a = call_guard(lambda: sf.decoder(x, attribute=True), expected=(sf.DecoderError,))
        ctx.count("decoder_cases")
        nfr = x.count(".") + 1
        ctx.case(("d", x), nfr >= 2 or "Branch" in x, sample={"selfies": x[:160]} if nfr >= 2 and len(x) > 30 else None)
        if p[0] == "esc" or a[0] == "esc":
            ctx.finding("escape:%s" % (p if p[0] == "esc" else a)[1], payload, repr((p, a))[:300])
            continue
        if p[0] != a[0]:
            ctx.finding("attribution-changes-acceptance", payload, "%r vs %r" % (p[:2], a[:2]))
            continue
        if p[0] != "ok":
            continue
        try:
            out, am = a[1]
            am = as_list(am)
        except Exception as e:
            ctx.finding("attribution-malformed", payload, repr(e))
            continue
        if out != p[1]:
            ctx.finding("attribution-changes-output", payload, "%r vs %r" % (p[1][:200], out[:200]))
            continue
        if nfr >= 2:
            ctx.count("multi_fragment")
        if "[nop]" in x:
            ctx.count("with_nop")
        if "%" in out:
            ctx.count("outputs_with_percent_labels")
        insyms = [t for t in tokens_with_dots(x) if t not in (".", "[nop]")]
        try:
            ref = ref_decode(x, table)
        except RefReject:
            ctx.finding("oracle-disagrees-on-acceptance", payload, "reference rejects an accepted string (C02's business)")
            continue
        m = None
        try:
            m = read_smiles(out)
        except SmilesSyntaxError:
            if has_long_percent_run(out):
                try:
                    m = next(read_segmented(out, 100), None)
                except SegmentationBudget:
                    m = None
        if m is None or len(m.atoms) != len(ref.atoms):
            ctx.count("unreadable_or_mismatched_output_skipped")
            continue
        atom_end = {a_.end - 1: a_ for a_ in m.atoms}
        got = {}
        bad = None
        for idx, tok, att in am:
            ctx.count("entries_checked")
            if not isinstance(idx, int) or out[idx - len(tok) + 1: idx + 1] != tok or idx - len(tok) + 1 < 0:
                bad = ("output-token-not-at-reported-index", "entry (%r, %r): output there is %r" % (idx, tok, out[max(0, idx - len(tok) + 1): idx + 1]))
                break
            for (i, t) in att:
                if not isinstance(i, int) or not (0 <= i < len(insyms)) or insyms[i] != t:
                    bad = ("input-token-not-at-reported-position", "entry (%r, %r) cites (%r, %r) but input symbol %r is %r" % (
                        idx, tok, i, t, i, insyms[i] if isinstance(i, int) and 0 <= i < len(insyms) else None))
                    break
            if bad:
                break
            ra = atom_end.get(idx)
            if ra is not None and ra.text == tok:
                if ra.idx in got:
                    bad = ("atom-attributed-twice", "atom %d" % ra.idx)
                    break
                got[ra.idx] = att
        if bad:
            ctx.finding("decoder-" + bad[0], dict(payload, output=out[:500]), bad[1])
            continue
        for i in range(len(m.atoms)):
            ctx.count("decoder_atoms_checked")
            if len(ref.attr[i]) > 1:
                ctx.count("nested_atoms")
            if got.get(i) != ref.attr[i]:
                ctx.finding("decoder-atom-attribution-wrong", dict(payload, output=out[:500]),
                            "atom %d (%s): reported %r, expected %r" % (i, m.atoms[i].text, got.get(i), ref.attr[i]))
                break
    # ------------------------------------------------- decoder, compatible=True (legacy symbols, also in index positions)
    from vmon.hostile import LEGACY
    from vmon.legacy import modernize
    sf.set_semantic_constraints("default")
    table = sf.get_semantic_constraints()
    g = LiveGen(table, rng, p_branch=0.25, p_ring=0.2)
    leg_branch = [s for s in LEGACY if s.startswith("[Branch") and s[-2] in "123" and s[-4] in "123"]
    for it in range(300 if quick else 8000):
        toks = tokens_with_dots(g.string(rng.choice([1, 2]), rng.choice([8, 20, 50])))
        for k in range(rng.randint(1, 4)):
            p_ = rng.randrange(len(toks))
            if toks[p_] != ".":
                # legacy spellings of branch symbols (also where they serve as index digits), legacy rings and atoms
                toks[p_] = rng.choice(leg_branch + leg_branch + LEGACY[:36])
        x = "".join(toks)
        p0 = call_guard(lambda: sf.decoder(x, compatible=True), expected=(sf.DecoderError,))
        a0 = call_guard(lambda: sf.decoder(x, compatible=True, attribute=True), expected=(sf.DecoderError,))
        ctx.count("compatible_cases")
        ctx.case(("dc", x), True)
        got = a0[1][0] if a0[0] == "ok" else None
        if p0[0] == "esc" or a0[0] == "esc":
            ctx.finding("escape:%s" % (p0 if p0[0] == "esc" else a0)[1], {"selfies": x, "table": table}, repr((p0, a0))[:300])
        elif p0[0] != a0[0] or (p0[0] == "ok" and got != p0[1]):
            ctx.finding("attribution-changes-output-under-compatible", {"selfies": x, "table": table},
                        "compatible=True: %r ; compatible=True, attribute=True: %r" % (p0[:2], (a0[0], got)))
        elif p0[0] == "ok":
            # cited input positions: the symbol at that position (as written or modernised)
            insyms = [t for t in toks if t not in (".", "[nop]")]
            for e in as_list(a0[1][1]):
                for (i_, t_) in e[2]:
                    if not (isinstance(i_, int) and 0 <= i_ < len(insyms) and t_ in (insyms[i_], modernize(insyms[i_]))):
                        ctx.finding("decoder-input-token-not-at-reported-position", {"selfies": x, "table": table, "compatible": True},
                                    "entry cites (%r, %r), input symbol %r is %r" % (i_, t_, i_, insyms[i_] if isinstance(i_, int) and 0 <= i_ < len(insyms) else None))
                        break

    # ------------------------------------------------------------ encoder
    sf.set_semantic_constraints({"?": 12})
    lax = sf.get_semantic_constraints()
    for it in range(700 if quick else 30000):
        if rng.random() < 0.15:
            m, _, _ = standard_system(rng, nrings=rng.choice([1, 2]))
        else:
            m = random_tree_mol(rng, rng.choice([1, 3, 6, 12, 25] * 6 + [120, 300]), ncomp=rng.choice([1, 1, 2, 3, 4, 12, 40]), p_ring=rng.choice([0.1, 0.3]),
                                p_bracket=0.3, table=lax)
        if not m.atoms:
            continue
        try:
            s = spell(m, rng)[0]
        except ValueError:
            ctx.count("too_many_open_labels")
            continue
        payload = {"smiles": s}
        p = call_guard(lambda: sf.encoder(s, strict=False), expected=(sf.EncoderError,))
        a = call_guard(lambda: sf.encoder(s, strict=False, attribute=True), expected=(sf.EncoderError,))
        ctx.count("encoder_cases")
        if p[0] == "esc" or a[0] == "esc":
            ctx.finding("escape:%s" % (p if p[0] == "esc" else a)[1], payload, repr((p, a))[:300])
            continue
        if p[0] != a[0]:
            ctx.finding("attribution-changes-acceptance", payload, "%r vs %r" % (p[:2], a[:2]))
            continue
        if p[0] != "ok":
            continue
        try:
            x, am = a[1]
            am = as_list(am)
        except Exception as e:
            ctx.finding("attribution-malformed", payload, repr(e))
            continue
        if x != p[1]:
            ctx.finding("attribution-changes-output", payload, "%r vs %r" % (p[1][:200], x[:200]))
            continue
        try:
            mi = read_smiles(s)
            ref = ref_decode(x, lax)
        except (SmilesSyntaxError, RefReject, ValueError) as e:
            ctx.finding("generator-bug", payload, repr(e))
            continue
        ctx.case(("e", s), len(mi.atoms) >= 4, sample={"smiles": s[:120], "selfies": x[:160]} if len(mi.atoms) >= 4 else None)
        if len(ref.atoms) != len(mi.atoms):
            ctx.count("atom_count_mismatch_skipped")   # C03's business
            continue
        want = collections.Counter()
        for i, at in enumerate(mi.atoms):
            want[(ref.attr[i][-1][1], at.text)] += 1
        have = collections.Counter()
        for idx, tok, att in am:
            for (_, t) in att:
                have[(tok, t)] += 1
        for pair, n in want.items():
            ctx.count("encoder_pairs_checked", n)
            if have[pair] < n:
                ctx.finding("encoder-atom-attribution-missing", dict(payload, selfies=x[:500]),
                            "SELFIES atom symbol %s made from SMILES atom %s: expected %d attribution(s), found %d" % (pair[0], pair[1], n, have[pair]))
                break


def replay(ctx, payload):
    sf = env.load_selfies()
    if "selfies" in payload and "table" in payload:
        sf.set_semantic_constraints(payload["table"])
        a = call_guard(lambda: sf.decoder(payload["selfies"], attribute=True), expected=(sf.DecoderError,))
        ctx.finding("replay-observation", payload, repr(a)[:1500])
    else:
        a = call_guard(lambda: sf.encoder(payload["smiles"], strict=False, attribute=True), expected=(sf.EncoderError,))
        ctx.finding("replay-observation", payload, repr(a)[:1500])
