#!/usr/bin/env python3
"""Markdown tables of the last self-validation campaigns (work/mutants-own.json, work/mutants-seeded.json)."""
import json
import os
import sys

ROOT = os.path.dirname(os.path.dirname(os.path.abspath(__file__)))
sys.path.insert(0, os.path.join(ROOT, "tools"))


def main():
    for kind in ("own", "seeded"):
        p = os.path.join(ROOT, "work", "mutants-%s.json" % kind)
        if not os.path.exists(p):
            continue
        rows = json.load(open(p))
        print("\n#### %s (%d, caught %d)\n" % (kind, len(rows), sum(1 for r in rows if r["verdict"] == "CAUGHT")))
        print("| change | repo's fast tests | verdict | checks that fired (mechanisms) |")
        print("|---|---|---|---|")
        for r in rows:
            mech = "; ".join("%s: %s" % (p_, ", ".join(m[:3])) for p_, m in sorted(r.get("mechanisms", {}).items()))
            print("| %s | %s | %s | %s |" % (r["name"], r["suite"], r["verdict"], mech or "-"))


if __name__ == "__main__":
    main()
