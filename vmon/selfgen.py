"""G2: state-aware ("live") SELFIES generator, plus the deep-nesting and
ring-dense modes and symbol-level mutation (G3).  Uses only the reference
symbol parser and capacity lookup, never selfies itself."""
from vmon.refsem import INDEX_SYMBOLS, capacity, classify, digits_for

EXTRA_ATOMS = ['CH1', 'CH2', 'NH1', 'C@', 'C@@', 'C@H1', 'C@@H1', '13C', 'Si', 'Fe+2',
               'OH0', 'N@+1', 'SH1', 'PH1', '14CH2-1', 'Xe-2', 'B-1', 'S+1', 'P@@', 'Se',
               'N+1', 'O-1', 'C-1', '2H', 'Sn', 'As', 'CH3', 'NH3+1', 'Zr', 'I+2', 'CH0',
               '0Fe', 'Fe', '00C@@H1', '0N+1', '013C', '0Si', '000Se', '0CH2', '02H', '0B-1']
JUNK = ['[Xx]', '[Branch9]', '[CH9]', '[]', '[ring1]', '[C+0]', '[=Ring4]', '[Cexpl]',
        '[Branch1_1]', '[c]', '[C@@@]', '[CH12]', '[#Branch0]', '[-Ring1]', '[Ring]']
RING_STEREO = ['-/', '-\\', '/-', '\\-', '//', '/\\', '\\/', '\\\\']


def atom_pool(table):
    pool = [k for k in table if k != '?']
    return pool + EXTRA_ATOMS


class LiveGen(object):
    def __init__(self, table, rng, p_branch=0.18, p_ring=0.15, p_dead=0.03,
                 stereo=True, max_depth=12, ring_far=0.3, pool=None, p_junk=0.0):
        self.t = table
        self.r = rng
        self.pool = pool if pool is not None else atom_pool(table)
        self.caps = {}
        for a in self.pool:
            c = classify('[' + a + ']')
            if c is None or c[0] != 'atom':
                continue
            cap = capacity(table, c[3], c[7]) - (c[6] or 0)
            if cap >= 0:
                self.caps[a] = cap
        if not self.caps:
            self.caps = {'C': capacity(table, 'C', 0)}
        self.alive = [a for a, c in self.caps.items() if c >= 2]
        self.high = [a for a, c in self.caps.items() if c >= 4]
        self.any = list(self.caps)
        self.pb, self.pr, self.pd, self.stereo = p_branch, p_ring, p_dead, stereo
        self.max_depth = max_depth
        self.ring_far = ring_far
        self.p_junk = p_junk
        self.natoms = 0

    def atom(self, state, prefer_high=False):
        r = self.r
        if prefer_high and self.high and r.random() < 0.8:
            a = r.choice(self.high)
        elif self.alive and r.random() < 0.93:
            a = r.choice(self.alive)
        else:
            a = r.choice(self.any)
        b = r.choice(['', '', '', '=', '=', '#', '/', '\\'] if self.stereo else ['', '', '=', '#'])
        beta = {'=': 2, '#': 3}.get(b, 1)
        cap = self.caps[a]
        if r.random() < 0.95 and state and state > 0 and cap - min(beta, state, cap) < 2 and cap >= 3:
            b = ''
            beta = 1
        mu = min(beta, state, cap) if state and state > 0 else 0
        ns = cap - mu
        if state == 0 or mu > 0:
            self.natoms += 1
        return '[%s%s]' % (b, a), (ns or None)

    def chain(self, state, budget, depth=0, ring_dense=False):
        r = self.r
        out = []
        pb, pr = self.pb, self.pr
        while len(out) < budget:
            if state is None:
                if r.random() < 0.5:
                    out.append(r.choice(['[C]', '[Xx]', '[Ring1]', '[Branch1]', '[nop]', '[epsilon]', '[=O]', '[Branch9]']))
                else:
                    break
                continue
            x = r.random()
            if self.p_junk and r.random() < self.p_junk:
                out.append(r.choice(JUNK))
                continue
            if x < pb and depth < self.max_depth:
                m = r.choice([1, 1, 2, 3])
                L = r.choice([1, 1, 1, 1, 2, 3])
                c = {1: '', 2: '=', 3: '#'}[m]
                out.append('[%sBranch%d]' % (c, L))
                if state <= 1:
                    continue
                n = min(state - 1, m)
                k = r.choice([1, 1, 2, 2, 3, 4, 6, 10, 20]) if r.random() < 0.9 else r.randint(1, 60)
                q = k - 1
                if r.random() < 0.1:
                    q = max(0, q + r.choice([-2, -1, 1, 2, 5]))
                q = min(q, 16 ** L - 1)
                ds = digits_for(q, L)
                if r.random() < 0.03:
                    ds[r.randrange(L)] = r.choice(['[F]', '[Cl]', '[Xx]', '[epsilon]', '[nop]'])
                out += ds
                inner = self.chain(n, k, depth + 1, ring_dense)
                out += inner
                state = state - n
            elif x < pb + pr:
                m = r.choice([1, 1, 1, 2, 3])
                L = r.choice([1, 1, 1, 2, 3])
                if state > 0 and r.random() < 0.95:
                    if state < 2:
                        s_, state = self.atom(state, ring_dense)
                        out.append(s_)
                        continue
                    m = min(m, state - 1)
                if self.stereo and r.random() < 0.15 and m == 1:
                    pre = r.choice(RING_STEREO)
                else:
                    pre = {1: '', 2: '=', 3: '#'}[m]
                out.append('[%sRing%d]' % (pre, L))
                if state == 0:
                    continue
                y = r.random()
                if ring_dense:
                    q = r.choice([0, 1, 1, 1, 2, 2, 3, 5]) if y < 0.9 else r.randint(0, max(1, self.natoms))
                elif y < 0.6:
                    q = r.randint(1, 6)
                elif y < 0.7:
                    q = 0
                elif y < 0.7 + self.ring_far * 0.67:
                    q = r.randint(0, max(1, self.natoms))
                else:
                    q = r.randint(0, 16 ** L - 1)
                q = min(q, 16 ** L - 1)
                ds = digits_for(q, L)
                if r.random() < 0.02:
                    ds[r.randrange(L)] = r.choice(['[F]', '[Xx]', '[nop]'])
                out += ds
                mu = min(m if pre in ('', '=', '#') else 1, state)
                state = (state - mu) or None
            elif x < pb + pr + self.pd:
                out.append(r.choice(['[epsilon]', '[nop]', '[nop]']) if (depth > 0 or r.random() < 0.02) else '[nop]')
                if out[-1] == '[epsilon]' and state != 0:
                    state = None
            else:
                s, state = self.atom(state, ring_dense)
                out.append(s)
        return out

    def string(self, nfrag=1, length=60, ring_dense=False):
        frags = []
        save = (self.pb, self.pr)
        if ring_dense:
            self.pb, self.pr = 0.05, 0.45
        try:
            for _ in range(nfrag):
                self.natoms = 0 if not frags else self.natoms
                frags.append(''.join(self.chain(0, length, 0, ring_dense)))
        finally:
            self.pb, self.pr = save
        return '.'.join(frags)

    def long_string(self, n):
        """Scale: one fragment of about n symbols whose derivation stays alive to the end (chain atoms of capacity >= 3,
        short branches, small rings, now and then a double bond)."""
        r = self.r
        pool = [a for a, c in self.caps.items() if c >= 3] or self.any
        out = []
        while len(out) < n:
            x = r.random()
            if x < 0.78:
                out.append('[%s]' % r.choice(pool))
            elif x < 0.83:
                out.append('[=%s]' % r.choice(pool))
                out.append('[%s]' % r.choice(pool))
            elif x < 0.93:
                k = r.choice([1, 2])
                out += ['[%s]' % r.choice(pool), '[Branch1]', '[C]' if k == 1 else '[Ring1]'] + ['[%s]' % r.choice(self.any) for _ in range(k)] + ['[%s]' % r.choice(pool)]
            else:
                out += ['[%s]' % r.choice(pool), '[Ring1]', r.choice(['[Ring1]', '[Ring2]', '[Branch1]', '[C]'])]
        return ''.join(out)

    def deep(self, depth, tail=3):
        """depth nested branches, each opened inside the budget of the last."""
        r = self.r
        pool = [a for a, c in self.caps.items() if c >= 3] or self.any
        out = []
        for _ in range(depth):
            L = r.choice([1, 1, 2, 3])
            out.append('[%s]' % r.choice(pool))
            out.append('[%sBranch%d]' % (r.choice(['', '', '=', '#']), L))
            out += digits_for(r.randrange(16 ** L) if r.random() < 0.5 else 16 ** L - 1, L)
        out += self.chain(1, tail, self.max_depth)
        return ''.join(out)


def mutate_symbols(tokens, rng, pool, n=None):
    """G3: insert / delete / replace / swap at symbol level."""
    toks = list(tokens)
    for _ in range(n or rng.randint(1, 4)):
        op = rng.random()
        if op < 0.35 or not toks:
            toks.insert(rng.randrange(len(toks) + 1), rng.choice(pool))
        elif op < 0.6:
            toks.pop(rng.randrange(len(toks)))
        elif op < 0.85:
            toks[rng.randrange(len(toks))] = rng.choice(pool)
        elif len(toks) >= 2:
            i, j = rng.randrange(len(toks)), rng.randrange(len(toks))
            toks[i], toks[j] = toks[j], toks[i]
    return toks
