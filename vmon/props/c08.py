"""C08 - decoder is total: returns or raises DecoderError, always terminates,
leaves the global constraint state untouched."""
import os
import subprocess
import sys

from vmon import env, hooks, scopes, tablegen
from vmon.hooks import MON, call_guard
from vmon.hostile import hostile_selfies, LEGACY, MODERN
from vmon.legacy import modernize
from vmon.refsem import ref_decode, RefReject, tokens_with_dots
from vmon.selfgen import LiveGen
from vmon.totality import Totality, AbortWorkload, branch_symbol_count

ID = "C08"
LEVEL = "exploration"
RULE = ("hostile str inputs: random characters over the SELFIES alphabet plus Unicode digits/letters, control characters and lone "
        "surrogates; token soups of valid, broken and legacy symbols; character-level mutations of real SELFIES strings; digit "
        "runs up to 6000 digits in every numeric field; branch nesting 50-2500; long inputs up to 6000 symbols; edge strings; "
        "every input under all four (compatible, attribute) combinations. M9 taps every exception at the API boundary, M7 bounds "
        "the logical steps (sys.monitoring LINE events inside the repository's code) by min(20000+5000n+200n^2, 3e7), M5 compares "
        "the global table before/after. thorough adds a coverage-guided atheris campaign. distinct = distinct (input, flags); "
        "non-trivial = input of >= 3 characters that is not a well-formed string of known symbols")
ASSUMPTIONS = ["'always terminates' is decided as 'within a generous polynomial number of interpreter line events'; a separate "
               "wall-clock watchdog only ever yields inconclusive",
               "RecursionError on inputs whose reference nesting depth is >= 300 is the known finding F5; on shallower input it is a violation"]
F5 = "F5-decoder-recursion-depth"


def shards(tier):
    return 16


def timeout(tier):
    return 1800 if tier == "quick" else 14400


def floors(tier):
    return {"calls": 20000, "returned": 2000, "raised_expected": 5000, "class.chars": 500, "class.tokens": 500,
            "class.legacy": 300, "class.digits": 100, "class.deep": 50, "class.long": 30, "class.mutated": 300,
            "flags.compatible": 5000, "flags.attribute": 5000, "steps": 1000000, "atheris.executions": 100000}


def nesting_depth(x):
    """Reference nesting depth of a (possibly legacy / partly malformed) input."""
    try:
        toks = tokens_with_dots(x)
    except ValueError:
        return None
    y = "".join(modernize(t) if t != "." else t for t in toks)
    try:
        return ref_decode(y, {"?": 8}).max_nesting
    except RefReject as e:
        return e.partial.max_nesting if e.partial is not None else None
    except ValueError:
        return None


class DecTotality(Totality):
    def classify_escape(self, r, x, payload):
        if r[1] == "RecursionError":
            d = nesting_depth(x)
            if d is None:
                d = branch_symbol_count(x) if branch_symbol_count(x) >= 300 else 0
            if d >= 300:
                self.ctx.finding(F5, payload, "RecursionError from %s (reference nesting depth %d)" % (r[2], d))
                return
            self.ctx.finding("escape:RecursionError-shallow@%s" % r[2], payload, "nesting depth only %r" % d)
            return
        self.ctx.finding("escape:%s@%s" % (r[1], r[2]), payload, "%s from %s: %s" % (r[1], r[2], r[3]))


def run(ctx):
    sf = env.varied(env.load_selfies(), ctx)
    rng = ctx.rng
    quick = ctx.tier == "quick"
    T = DecTotality(ctx, "decoder")
    seeds = []
    for s in scopes.dataset_smiles(60)[ctx.shard::ctx.nshards][:40]:
        r = call_guard(lambda: sf.encoder(s, strict=False), expected=(sf.EncoderError,))
        if r[0] == "ok":
            seeds.append(r[1])
    g = LiveGen(sf.get_semantic_constraints(), rng, p_junk=0.02)
    n = 2200 if quick else 40000
    tables = ["default", "octet_rule", "hypervalent", {"?": 0}, {"?": 12, "C": 1, "Fe+2": 0}]
    try:
        for i in range(n):
            if i % 200 == 0:
                tablegen.set_table_hostile(sf, rng.choice(tables), rng, ctx)
            if i % 10 == 9:
                cls, x = "live", g.string(rng.choice([1, 2, 3]), rng.choice([5, 30, 100]))
                if rng.random() < 0.5:
                    toks = tokens_with_dots(x)
                    toks.insert(rng.randrange(len(toks) + 1), rng.choice(LEGACY))
                    x = "".join(toks)
            else:
                cls, x = hostile_selfies(rng, seeds)
            if len(x) > 40000:
                x = x[:40000]
            ctx.count("class." + cls)
            nt = len(x) >= 3
            for compat in (False, True):
                for attr in (False, True):
                    if cls in ("deep", "long", "digits") and (compat or attr) and rng.random() < 0.5:
                        continue   # the expensive classes get half of the extra flag combinations
                    if compat:
                        ctx.count("flags.compatible")
                    if attr:
                        ctx.count("flags.attribute")
                    T.call(x, (compat, attr), cls)
                    ctx.case((x, compat, attr), nt, sample={"input": x[:120], "class": cls, "compatible": compat, "attribute": attr}
                             if cls in ("tokens", "legacy", "chars") and len(x) > 10 else None)
        if ctx.shard % 4 == 3:
            # scale: a long-lived process under a custom table - tens of thousands of distinct atom symbols go through
            # the decoder; the state probes around every call keep watching the table in force and the presets
            sf.set_semantic_constraints({"?": 6, "C": 3, "N": 5, "Sn+4": 2, "O": 2, "F": 1})
            for k in range(20000 if quick else 70000):
                T.call("[%dC][=N][%dO-1]" % (k, k % 97) if k % 3 else "[%dSn+4][F]" % k, (False, False), "soak")
            ctx.count("soak_distinct_symbols", 20000 if quick else 70000)
    except AbortWorkload as e:
        ctx.count("workload_aborted_after_step_bound_violations")
    atheris_campaign(ctx, "decoder", runs=20000 if quick else 300000, T=T)
    T.close()
    for k, v in MON.counts.items():
        ctx.count(k, v)


def atheris_campaign(ctx, which, runs, T=None):
    """M10: coverage-guided byte mutation for a fixed execution count.  The fuzzing process has no step counter; an
    input on which it stops making progress is handed back by libFuzzer (-timeout, artifact file) and judged here
    under the logical step bound, never by the wall clock."""
    if T is not None and T.steplimit_hits >= 4:
        ctx.count("atheris.skipped_after_step_bound_violations")
        return
    rundir = os.environ.get("VMON_RUNDIR", env.WORK)
    out = os.path.join(rundir, "atheris-%s-%d.jsonl" % (which, ctx.shard))
    prefix = os.path.join(rundir, "atheris-%s-%d-artifact-" % (which, ctx.shard))
    cmd = [env.PYTHON, "-m", "vmon.fuzz_target", "-runs=%d" % runs, "-max_len=300", "-seed=%d" % (ctx.seed * 100 + ctx.shard + 1),
           "-verbosity=0", "-print_final_stats=0", "-timeout=120", "-artifact_prefix=" + prefix]
    e = env.child_env(hashseed=ctx.shard % 5, extra={"FZ_TARGET": which, "FZ_OUT": out})
    try:
        p = subprocess.run(cmd, env=e, capture_output=True, text=True, timeout=6000, cwd=env.ROOT)
    except subprocess.TimeoutExpired:
        ctx.inconclusive_reason("atheris campaign timed out")
        return
    import glob
    import json
    arts = sorted(glob.glob(prefix + "*"))
    for a in arts[:5]:
        import atheris
        fdp = atheris.FuzzedDataProvider(open(a, "rb").read())
        fl = fdp.ConsumeIntInRange(0, 3)
        s = fdp.ConsumeUnicodeNoSurrogates(4096)
        ctx.count("atheris.artifacts_rejudged")
        if T is not None:
            try:
                T.call(s, (bool(fl & 1), bool(fl & 2)), "atheris-artifact")
            except AbortWorkload:
                break
    n_exec = 0
    if os.path.exists(out + ".stats"):
        rec = json.load(open(out + ".stats"))
        n_exec = rec["executions"]
        ctx.count("atheris.executions", rec["executions"])
        ctx.count("atheris.returned", rec["returned"])
        ctx.count("atheris.raised_expected", rec["raised_expected"])
    if os.path.exists(out):
        for line in open(out):
            rec = json.loads(line)
            if rec.get("kind") == "escape":
                ctx.finding("escape:%s" % rec["mech"], {"input": rec["input"], "flags": rec["flags"], "class": "atheris"}, rec["mech"])
    if n_exec == 0 and not arts:
        ctx.inconclusive_reason("atheris campaign produced no executions: %s" % (p.stderr[-300:],))


def replay(ctx, payload):
    sf = env.load_selfies()
    T = DecTotality(ctx, "decoder")
    x = payload.get("input_full", payload["input"])
    f = payload["flags"]
    T.call(x, (f["compatible"], f["attribute"]), "replay")
    T.close()
