#!/usr/bin/env python3
"""Regenerates MANIFEST.json from the table below (kept in one place so the
file stays valid and consistent with what is built)."""
import json
import os

ROOT = os.path.dirname(os.path.dirname(os.path.abspath(__file__)))

BASELINE = ("cd /repo && /venv/bin/python -m pytest -ra -q -p no:cacheprovider --timeout=900 "
            "--continue-on-collection-errors")

TRUST = ("independent SMILES reader and reference derivation in vmon/ (share no code with selfies); "
         "the real selfies code from /repo's working tree is what runs; sampled, not exhaustive, unless stated")

CHECKS = {
    "C01": dict(
        technique="runtime monitoring: strict independent re-read + valence recount of every decoder output; in-call graph-invariant (M1), writer (M2) and derivation-contract (M3) monitors; RDKit sanitizer on robust-alphabet outputs",
        text="held on ~0.8M (quick) / ~10M (thorough) decoder executions: all strings up to length 4-5 over four symbol sets under five tables, live / ring-dense / multi-fragment strings under random tables, mutated dataset strings; every output re-read strictly and valence-checked against the table in force. Exploration: says nothing about inputs not generated.",
        ref="5 C01"),
    "C02": dict(
        technique="runtime monitoring with a reference model: every decoder call is compared at molecule level with an independent executable rendering of the documented derivation",
        text="the quantifier's own bounded part is enumerated (all strings up to length 4-5 over four symbol sets covering every rule and state, five tables), live / mutated / index-sensitive strings beyond; atoms, bonds, orders, stereo marks, written neighbour order and acceptance compared with the reference derivation. Exploration with an exhaustive small scope.",
        ref="5 C02"),
    "C03": dict(
        technique="runtime monitoring: round trip through the real encoder and decoder, both sides read by an independent SMILES reader and compared atom by atom; M1 recount of the encoder's graph, M2 writer monitor",
        text="held on ~40k (quick) / ~0.6M (thorough) spellings of random molecules under random tables, macrocycles / long branches with 1-3 index symbols, dataset molecules in original and re-spelled form.",
        ref="5 C03"),
    "C04": dict(
        technique="runtime monitoring: neighbour-order parity oracle over independently read input and output (no chemistry), stereo-dense workload",
        text="held on ~25k (quick) / ~0.5M (thorough) spellings with ~80k chiral centres (ring-opening, ring-closing, both, first atom, with H) and ~130k stereo marks incl. either end of ring closures.",
        ref="5 C04"),
    "C05": dict(
        technique="runtime monitoring: exact perfect-matching oracle on every call of the matching routine (M4) and on generator-known pi-demand sets; order-independence over 4-8 spellings",
        text="four oracles from strongest to weakest input class (matching routine, standard kinds with completeness, anchored charged/radical kinds, exotic kinds); fullerene and other cubic cages; known findings F3, F4 keyed by mechanism.",
        ref="5 C05"),
    "C06": dict(
        technique="runtime monitoring: independent valence count against the table reported by the API; molecules generated around capacity; table switched between calls with cache probes (M5)",
        text="held on ~13k (quick) / ~0.25M (thorough) (table, molecule) pairs with margins -3..+3, charged / explicit-H / '?'-only atoms and kekulizable aromatic systems; strict verdict re-judged after a table switch.",
        ref="5 C06"),
    "C07": dict(
        technique="runtime monitoring: alphabet content against a model, every symbol decoded alone, random strings over the alphabet judged by the C01 oracle, tables switched between calls",
        text="held on ~900 (quick) / ~20k (thorough) accepted tables incl. multi-digit and zero-containing charges, capacities 0-20.",
        ref="5 C07"),
    "C08": dict(
        technique="runtime monitoring: exception tap at the API boundary (M9), sys.monitoring logical-step bound (M7), global-table probe (M5); atheris coverage-guided fuzzing in the thorough tier",
        text="held on ~130k (quick) / ~2.5M + 2.4M fuzzed (thorough) hostile decoder calls under all four flag combinations; termination decided in line events, never wall clock; known finding F5.",
        ref="5 C08"),
    "C09": dict(
        technique="runtime monitoring: exception tap at the API boundary (M9), sys.monitoring logical-step bound (M7), matching judge (M4) for the F3 mechanism key; atheris in the thorough tier",
        text="held on ~90k (quick) / ~2.5M + 2.4M fuzzed (thorough) hostile encoder calls under all four flag combinations; known findings F9, F3.",
        ref="5 C09"),
    "C10": dict(
        technique="runtime monitoring: emitted tokens judged by the reference symbol grammar, decode + re-encode fixpoint, paired spellings from two PRNG streams",
        text="held on ~10k (quick) / ~0.2M (thorough) accepted SMILES with extreme atoms (118 elements, charges to +-101, isotopes to 1000, H to 9) and index lengths 1-3.",
        ref="5 C10"),
    "C11": dict(
        technique="runtime monitoring: API histories; each final translation compared with the reference derivation under the reported table and with a fresh interpreter forked from an untouched zygote, hash seeds 0-4",
        text="held on ~500 (quick) / ~11k (thorough) histories of 5-60 calls with warm caches, rejected updates and caller-side mutation; 9 probes each.",
        ref="5 C11"),
    "C12": dict(
        technique="runtime monitoring: history checker against a dict/set model of the configuration API; every object crossing the boundary is really mutated; atomicity observed before/after each rejected update",
        text="held on ~1k (quick) / ~24k (thorough) histories; known finding F12 keyed by the model's shadow of the caller's own mutations.",
        ref="5 C12"),
    "C13": dict(
        technique="runtime monitoring: differential outcome check of [nop] placements (forced into every index position, after every branch/ring symbol, fragment edges, random, exhaustive single insertions) with a tokenizer tap (M6)",
        text="held on ~23k (quick) / ~0.5M (thorough) variants of ~2.4k / 48k base strings incl. raising ones, plus padding round trips.",
        ref="5 C13"),
    "C14": dict(
        technique="runtime monitoring: utilities compared with the harness's own tokenisation on random well-formed strings; tokenizer tap (M6) on the decoder",
        text="held on ~28k (quick) / ~0.7M (thorough) strings / collections incl. Unicode, control characters, empty bodies.",
        ref="5 C14"),
    "C15": dict(
        technique="runtime monitoring: 10-line reference model of the encodings, inverse and batch laws, error paths",
        text="held on ~5.6k (quick) / 160k (thorough) (vocabulary, string, pad, enc_type) cases.",
        ref="5 C15"),
    "C16": dict(
        technique="runtime monitoring, exhaustive over the stated finite space: all n < 65536, all 21^3 symbol triples, every Q < 4096 through crafted ring/branch strings and macrocycle / long-branch SMILES",
        text="exhaustive for 0 <= n < 16^4 and all triples at helper level and for every Q < 16^3 at API level (decoder), sampled ring sizes / branch lengths up to 4097 at API level (encoder).",
        ref="5 C16"),
    "C17": dict(
        technique="runtime monitoring: attribution entries checked against the output text, the input tokenisation and the reference derivation's frame stack",
        text="held on ~5.6k decoder + 3.2k encoder inputs (quick), ~130k + 80k (thorough), multi-fragment, [nop], nested branches, fragments ending inside index reads.",
        ref="5 C17"),
    "C18": dict(
        technique="runtime monitoring: differential check against the harness's own moderniser; reachedness of legacy symbols decided by the reference derivation",
        text="held on ~8k (quick) / ~190k (thorough) mixed strings covering all 21 legacy branch/ring forms and ~50 legacy atom spellings.",
        ref="5 C18"),
    "C19": dict(
        technique="runtime monitoring under thread stress: barrier start, 1 us switch interval, sys.monitoring yield injection; every result compared with the same call alone in a forked fresh interpreter; overlaps and in-repo thread switches measured",
        text="held on ~20k (quick) / ~200k (thorough) concurrent calls in rounds of 2-16 threads with ~0.8M observed thread switches inside repository frames (quick).",
        ref="5 C19"),
}

PENDING = {}


def main():
    props = [json.loads(l) for l in open(os.path.join(ROOT, "properties.jsonl"))]
    checks = []
    na = []
    for p in props:
        pid = p["id"]
        if pid in CHECKS:
            c = CHECKS[pid]
            checks.append({
                "property_id": pid,
                "quick_cmd": "./check %s --tier quick" % pid,
                "thorough_cmd": "./check %s --tier thorough" % pid,
                "evidence_file": "evidence/%s.json" % pid,
                "replay_cmd_template": "./check %s --replay {path}" % pid,
                "engine": "vmon",
                "level_claimed": {"category": c.get("category", "exploration"), "text": c["text"],
                                  "design_ref": "DESIGN.md section " + c["ref"]},
                "level_note": c.get("note", TRUST),
                "technique": c["technique"],
            })
        else:
            na.append({"property_id": pid, "reason": PENDING.get(pid, "check not built yet (work in progress); the design in DESIGN.md section 5 applies")})
    man = {
        "version": 1,
        "setup_cmd": "./setup.sh",
        "hooks": {
            "guard": "SELFIES_VERIF",
            "enable": "no source hooks: every monitor attaches from the harness by rebinding module attributes or through sys.monitoring; workers export SELFIES_VERIF=1 for symmetry only",
            "baseline_off_cmd": BASELINE,
            "source_commits": [],
            "add_only": True,
        },
        "engines": [{
            "name": "vmon", "path": "vmon/",
            "serves_properties": [c["property_id"] for c in checks],
            "kind_free_text": "runtime monitoring harness: sharded worker processes run the real selfies code from /repo under generated hostile workloads while independent oracles (SMILES reader, reference derivation, exact matcher, configuration model) and in-call monitors (graph invariants, writer re-read, derivation contracts, matching judge, sys.monitoring step counter and yield injector) observe every call",
        }],
        "checks": checks,
        "not_applicable": na,
        "notes": "exit 0 held / 1 VIOLATION / 2 inconclusive (never on the unchanged tree). known_findings.json lists genuine defects by mechanism.",
    }
    with open(os.path.join(ROOT, "MANIFEST.json"), "w") as fh:
        json.dump(man, fh, indent=1)
        fh.write("\n")


if __name__ == "__main__":
    main()
