#!/usr/bin/env python3
"""Verify and store an independently written breaking change.

usage: ingest_seed.py <PROP> <worktree> [--full-suite]

For every <worktree>/_seed/changeN.diff + demoN.py: apply the diff to a scratch
copy of /repo, run the repository's tests there (fast files always; the dataset
file with --full-suite), run the demo against the unmodified /repo (must exit 0)
and against the patched copy (must exit non-zero); if all of that holds, store
seeded/<PROP>-<N>/{patch.diff, demo.py, meta.json}.  Nothing is written to /repo."""
import json
import os
import shutil
import subprocess
import sys

ROOT = os.path.dirname(os.path.dirname(os.path.abspath(__file__)))
sys.path.insert(0, os.path.join(ROOT, "tools"))
from run_mutants import make_copy, sh  # noqa


def main():
    prop, wt = sys.argv[1], sys.argv[2]
    full = "--full-suite" in sys.argv
    tag = [a.split("=", 1)[1] for a in sys.argv if a.startswith("--tag=")]
    tag = (tag[0] + "-") if tag else ""
    sd = os.path.join(wt, "_seed")
    notes = open(os.path.join(sd, "notes.md")).read() if os.path.exists(os.path.join(sd, "notes.md")) else ""
    for n in (1, 2, 3):
        diff = os.path.join(sd, "change%d.diff" % n)
        demo = os.path.join(sd, "demo%d.py" % n)
        if not (os.path.exists(diff) and os.path.exists(demo)):
            continue
        name = "%s-%s%d" % (prop, tag, n)
        d = make_copy("seed-" + name)
        rc, out = sh(["patch", "-p1", "-d", d, "-i", diff])
        if rc != 0:
            print(name, "PATCH DOES NOT APPLY", out[-300:])
            shutil.rmtree(d, ignore_errors=True)
            continue
        env = dict(os.environ, PYTHONPATH=d, PYTHONDONTWRITEBYTECODE="1")
        files = ["tests/test_selfies.py", "tests/test_specific_cases.py", "tests/test_selfies_utils.py"]
        if full:
            files.append("tests/test_on_datasets.py")
        rc, out = sh(["/venv/bin/python", "-m", "pytest", "-q", "-p", "no:cacheprovider"] + files, env, d, timeout=1800)
        tail = [l for l in out.strip().splitlines() if "passed" in l or "failed" in l][-1:] or [out[-200:]]
        failed = [l for l in out.splitlines() if l.startswith("FAILED")]
        # test_path1/test_path6: empty dataset files (baseline always-fail); test_path12 (hiv.csv) samples 10000 of
        # 41k rows at random and 4 phthalocyanine rows fail the test's RDKit comparison on the unmodified tree too
        unexpected = [l for l in failed if not any(t in l for t in ("test_path1]", "test_path6]", "test_path12]"))]
        suite_ok = not unexpected and ("passed" in tail[0])
        rc0, out0 = sh(["/venv/bin/python", demo], dict(os.environ, PYTHONPATH="/repo", PYTHONDONTWRITEBYTECODE="1"), "/tmp", timeout=600)
        rc1, out1 = sh(["/venv/bin/python", demo], env, "/tmp", timeout=600)
        used0 = "/repo/selfies" in out0
        used1 = d in out1
        ok = suite_ok and rc0 == 0 and rc1 != 0
        print("%s: suite=%s (%s) demo_without=%d demo_with=%d imported_ok=%s/%s -> %s" % (
            name, "PASS" if suite_ok else "FAIL", tail[0].strip()[:80], rc0, rc1, used0, used1, "KEEP" if ok else "REJECT"))
        if not ok:
            print("   ", (out1 if rc1 == 0 else out0)[-400:].replace("\n", " | "))
        if ok:
            dst = os.path.join(ROOT, "seeded", name)
            os.makedirs(dst, exist_ok=True)
            shutil.copy(diff, os.path.join(dst, "patch.diff"))
            shutil.copy(demo, os.path.join(dst, "demo.py"))
            for f in os.listdir(sd):     # helper modules the demos import
                if f.endswith(".py") and not f.startswith("demo") and os.path.getsize(os.path.join(sd, f)) < 200000:
                    shutil.copy(os.path.join(sd, f), os.path.join(dst, f))
            meta = {
                "property": prop, "property_ids": [prop],
                "written_by": "independent sub-agent given only the property text and a scratch worktree",
                "needs_to_manifest": "see notes", "notes": notes,
                "verified": {
                    "suite_with_change": tail[0].strip(), "full_suite_run": full,
                    "demo_exit_without_change": rc0, "demo_exit_with_change": rc1,
                    "commands": ["patch -p1 -d <scratch copy of /repo> -i patch.diff",
                                 "cd <copy> && PYTHONPATH=<copy> /venv/bin/python -m pytest -q -p no:cacheprovider " + " ".join(files),
                                 "PYTHONPATH=/repo /venv/bin/python demo.py   (exit %d)" % rc0,
                                 "PYTHONPATH=<copy> /venv/bin/python demo.py  (exit %d)" % rc1],
                },
                "demo_output_with_change": out1[-600:],
            }
            json.dump(meta, open(os.path.join(dst, "meta.json"), "w"), indent=1)
        shutil.rmtree(d, ignore_errors=True)


if __name__ == "__main__":
    main()
