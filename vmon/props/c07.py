"""C07 - any string over the semantically robust alphabet is a valid molecule."""
from vmon import env, hooks, tablegen
from vmon.hooks import MON, call_guard, cache_probe
from vmon.oracles import judge_output, F1_KEY
from vmon.refsem import INDEX_SYMBOLS, classify, tokens_with_dots
from vmon.selfgen import LiveGen

ID = "C07"
LEVEL = "exploration"
RULE = ("random accepted tables (presets, perturbed presets, random dicts over 22 elements x charges up to +-101 incl. "
        "multi-digit and zero-containing charges, capacities 0-20, '?' 0-12, a flagged class of non-canonical charge keys that "
        "must be rejected); for each: alphabet content against the model, every symbol decoded alone after [C], uniform random "
        "strings of 1-400 alphabet symbols and live strings restricted to the alphabet, each output judged as in C01; the "
        "table is switched between calls and the alphabet re-read. distinct = distinct (table, string); non-trivial = "
        "decoded molecule has >= 3 atoms")
ASSUMPTIONS = ["the required alphabet content is the documented one: 16 index symbols, 9 branch symbols, [RingL]/[=RingL], and "
               "[E], [=E], [#E] for every listed atom type up to its capacity; '?' contributes no symbols"]


def shards(tier):
    return 16


def floors(tier):
    return {"tables": 300, "symbols_decoded_alone": 10000, "strings_decoded": 5000, "tables_with_cap0": 50,
            "tables_with_cap>=9": 50, "tables_with_multidigit_charge": 50, "alphabet_after_switch": 300,
            "noncanonical_key_rejected": 10, "passed_dict_mutated": 100, "rejected_updates": 300, "sets_without_alphabet_read": 500, "strings_after_switch": 2000, "decoded_atoms>=30": 50}


def model_alphabet(t):
    a = set(INDEX_SYMBOLS)
    for L in "123":
        a |= {"[Ring%s]" % L, "[=Ring%s]" % L, "[Branch%s]" % L, "[=Branch%s]" % L, "[#Branch%s]" % L}
    for k, c in t.items():
        if k == "?":
            continue
        for b, m in (("", 1), ("=", 2), ("#", 3)):
            if m <= c:
                a.add("[%s%s]" % (b, k))
    return a


def check_alphabet(ctx, A, table, payload):
    exp = model_alphabet(table)
    if not isinstance(A, (set, frozenset)):
        ctx.finding("alphabet-not-a-set", payload, repr(type(A)))
        A = set(A)
    missing = exp - A
    extra = A - exp
    if missing:
        ctx.finding("alphabet-missing-required-symbol", dict(payload, missing=sorted(missing)[:10]),
                    "required symbols missing: %r" % sorted(missing)[:10])
    if extra:
        ctx.finding("alphabet-does-not-reflect-table", dict(payload, extra=sorted(extra)[:10]),
                    "symbols not justified by the table in force: %r" % sorted(extra)[:10])
    return exp


def run(ctx):
    sf = env.varied(env.load_selfies(), ctx)
    hooks.attach_m1()
    hooks.attach_m2(table_fn=sf.get_semantic_constraints)
    hooks.attach_m3(use_icontract=True)   # the derivation contracts as icontract post-conditions
    rng = ctx.rng
    quick = ctx.tier == "quick"
    ntab = 200 if quick else 8000
    for ti in range(ntab):
        t = tablegen.any_table(rng) if rng.random() < 0.6 else tablegen.random_table(rng)
        flagged = rng.random() < 0.08
        if flagged:
            t[rng.choice(["C+0", "N+01", "O-0", "S+²", "Fe+00", "C-007"])] = rng.choice([1, 2, 3])
        passed = tablegen.as_caller_dict(t, rng)
        try:
            sf.set_semantic_constraints(passed)
        except ValueError:
            ctx.count("noncanonical_key_rejected" if flagged else "table_rejected")
            continue
        if ti % 3 == 0:
            # the caller keeps using (and changing) the dict it passed; whatever the library then reports as the
            # table in force, the alphabet must be the alphabet of that table
            call_guard(sf.get_semantic_robust_alphabet)
            passed[rng.choice(["O", "N", "Xe", "Fe+2"])] = rng.choice([0, 1, 3, 6])
            passed.pop(rng.choice(sorted(passed)), None) if len(passed) > 2 and rng.random() < 0.3 and "?" in passed else None
            passed.setdefault("?", 2)
            ctx.count("passed_dict_mutated")
        table = sf.get_semantic_constraints()
        ctx.count("tables")
        if any(v == 0 for v in table.values()):
            ctx.count("tables_with_cap0")
        if any(v >= 9 for v in table.values()):
            ctx.count("tables_with_cap>=9")
        if any(len(k.lstrip("ABCDEFGHIJKLMNOPQRSTUVWXYZabcdefghijklmnopqrstuvwxyz")) >= 3 for k in table):
            ctx.count("tables_with_multidigit_charge")
        payload = {"table": table}
        r = call_guard(sf.get_semantic_robust_alphabet)
        if r[0] != "ok":
            ctx.finding("alphabet-call-raises", payload, repr(r)[:300])
            continue
        A = set(r[1])
        check_alphabet(ctx, A, table, payload)
        AL = sorted(A)
        # every symbol is inside the grammar and decodes alone
        for sym in AL:
            if classify(sym) is None:
                ctx.finding("alphabet-symbol-outside-grammar", dict(payload, symbol=sym), sym)
            d = call_guard(lambda: sf.decoder("[C]" + sym), expected=(sf.DecoderError,))
            ctx.count("symbols_decoded_alone")
            if d[0] != "ok":
                ctx.finding("decoder-rejects-alphabet-symbol", dict(payload, symbol=sym), repr(d)[:200])
        aset = A
        g = LiveGen(table, rng, stereo=False, pool=[k for k in table if k != "?"])
        for k in range(25 if quick else 40):
            if k % 3:
                x = "".join(rng.choice(AL) for _ in range(rng.choice([1, 3, 10, 40, 120, 400])))
            else:
                x = "".join(s for s in tokens_with_dots(g.string(1, rng.choice([10, 40, 150]))) if s in aset)
            p2 = {"selfies": x, "table": table}
            if rng.random() < 0.2:
                # a string of the user's own (not over the alphabet) that the decoder refuses half way - after ring and
                # branch symbols of high-capacity atoms have been read - right before the alphabet string
                junk = "".join(rng.choice(AL) for _ in range(rng.choice([4, 8, 20]))) + rng.choice(["[Foo]", "[CH9]", "[", "[Branch7]"])
                call_guard(lambda: sf.decoder(rng.choice(["[S][P][S][P]", "[Fe][C][C][Fe]", "[C][C][C][C]"]) + "[=Ring1][Ring2]" + junk), expected=(sf.DecoderError,))
                ctx.count("refused_string_before_alphabet_string")
                MON.drain()
            d = call_guard(lambda: sf.decoder(x), expected=(sf.DecoderError,))
            for mon, msg in MON.drain():
                ctx.finding("monitor-" + mon, p2, msg)
            if d[0] != "ok":
                ctx.finding("decoder-rejects-alphabet-string", p2, repr(d)[:300])
                ctx.case((sorted(table.items()), x), False)
                continue
            status, mol, detail = judge_output(d[1], table)
            ctx.count("strings_decoded")
            if status == "f1":
                ctx.count("f1_outputs")     # F1 is C01/C02's finding; here the molecule itself was judged clean
            elif status == "budget":
                ctx.count("segmentation_budget")
            elif status != "ok":
                ctx.finding("alphabet-string-%s" % status, dict(p2, output=d[1][:1500]), detail)
            if mol is not None and len(mol.atoms) >= 30:
                ctx.count("decoded_atoms>=30")
            ctx.case((sorted(table.items()), x), mol is not None and len(mol.atoms) >= 3,
                     sample={"table": table, "selfies": x[:200], "smiles": d[1][:200]} if len(x) > 30 else None)
        # switch the table; the alphabet must follow (and a rejected update must not change it)
        before = cache_probe()
        # a rejected update (valid, looser entries first) must leave table and alphabet as they are
        bad, reason = tablegen.invalid_update(rng, current=sf.get_semantic_constraints())
        if type(bad) is dict:
            bad = tablegen.as_caller_dict(bad, rng, p_plain=0.6)
        rj = call_guard(lambda: sf.set_semantic_constraints(bad))
        if rj[0] == "ok":
            ctx.finding("invalid-update-accepted", {"table": table, "update": repr(bad)}, reason)
        else:
            ctx.count("rejected_updates")
            t_after = sf.get_semantic_constraints()
            a_after = call_guard(sf.get_semantic_robust_alphabet)
            if a_after[0] == "ok":
                check_alphabet(ctx, set(a_after[1]), t_after, {"table": t_after, "after_rejected_update": repr(bad)})
            x = "".join(rng.choice(AL) for _ in range(40))
            d = call_guard(lambda: sf.decoder(x), expected=(sf.DecoderError,))
            if d[0] == "ok":
                status, mol, detail = judge_output(d[1], table)
                if status not in ("ok", "f1", "budget"):
                    ctx.finding("alphabet-string-%s-after-rejected-update" % status,
                                {"selfies": x, "table": table, "update": repr(bad), "output": d[1][:500]}, detail)
            elif d[0] == "err":
                ctx.finding("decoder-rejects-alphabet-string", {"selfies": x, "table": table, "update": repr(bad)}, "after a rejected update")
        # one to three accepted updates in a row WITHOUT reading the alphabet in between, then read it
        t2 = None
        for _ in range(rng.choice([1, 1, 2, 3])):
            t2 = tablegen.any_table(rng) if rng.random() < 0.6 else tablegen.neighbour_table(rng, table)
            try:
                sf.set_semantic_constraints(dict(t2))
                ctx.count("sets_without_alphabet_read")
            except ValueError:
                t2 = None
                break
        if t2 is None:
            continue
        table2 = sf.get_semantic_constraints()
        r2 = call_guard(sf.get_semantic_robust_alphabet)
        ctx.count("alphabet_after_switch")
        if r2[0] == "ok":
            check_alphabet(ctx, set(r2[1]), table2, {"table": table2, "previous_table": table})
            AL2 = sorted(r2[1])
            for k in range(6):
                # strings over the NEW alphabet that lean on the atom kinds of the PREVIOUS table (their capacities are
                # still in every memo): saturate each of them
                kinds = [s_ for s_ in AL2 if s_.strip("[]=#") in table and s_.strip("[]=#") not in ("?",)] or AL2
                x = "".join(rng.choice(kinds) + rng.choice(AL2) * rng.choice([1, 3]) for _ in range(rng.choice([2, 6, 15])))
                d = call_guard(lambda: sf.decoder(x), expected=(sf.DecoderError,))
                ctx.count("strings_after_switch")
                if d[0] != "ok":
                    ctx.finding("decoder-rejects-alphabet-string", {"selfies": x, "table": table2, "previous_table": table}, repr(d)[:200])
                else:
                    status, mol, detail = judge_output(d[1], table2)
                    if status not in ("ok", "f1", "budget"):
                        ctx.finding("alphabet-string-%s" % status, {"selfies": x, "table": table2, "previous_table": table,
                                                                     "output": d[1][:800]}, detail)
            again = call_guard(sf.get_semantic_robust_alphabet)
            if again[0] == "ok" and set(again[1]) != set(r2[1]):
                ctx.finding("alphabet-unstable", {"table": table2}, "two consecutive calls differ")
            after = cache_probe()
            if after["alphabet"] and after["alphabet"][0] > 0:
                ctx.count("alphabet_cache_hit_seen")
    for k, v in MON.counts.items():
        ctx.count(k, v)


def replay(ctx, payload):
    sf = env.load_selfies()
    sf.set_semantic_constraints(payload["table"])
    A = sf.get_semantic_robust_alphabet()
    check_alphabet(ctx, set(A), sf.get_semantic_constraints(), {"table": payload["table"]})
    x = payload.get("selfies") or ("[C]" + payload.get("symbol", "[C]"))
    d = call_guard(lambda: sf.decoder(x), expected=(sf.DecoderError,))
    if d[0] != "ok":
        ctx.finding("decoder-rejects-alphabet-string", payload, repr(d))
    else:
        status, mol, detail = judge_output(d[1], sf.get_semantic_constraints())
        if status not in ("ok", "f1"):
            ctx.finding("alphabet-string-%s" % status, payload, detail)
