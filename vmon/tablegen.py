"""G4: constraint tables (presets, perturbed presets, random dicts, invalid
updates).  The presets are restated here from the documentation table; they
are *not* read from selfies."""

DEFAULT = {"H": 1, "F": 1, "Cl": 1, "Br": 1, "I": 1, "B": 3, "B+1": 2, "B-1": 4,
           "O": 2, "O+1": 3, "O-1": 1, "N": 3, "N+1": 4, "N-1": 2, "C": 4, "C+1": 3,
           "C-1": 3, "P": 5, "P+1": 4, "P-1": 6, "S": 6, "S+1": 5, "S-1": 5, "?": 8}
PRESETS = {
    "default": dict(DEFAULT),
    "octet_rule": dict(DEFAULT, **{"S": 2, "S+1": 3, "S-1": 1, "P": 3, "P+1": 4, "P-1": 2}),
    "hypervalent": dict(DEFAULT, **{"Cl": 7, "Br": 7, "I": 7, "N": 5}),
}
ELS = ['C', 'N', 'O', 'S', 'P', 'B', 'F', 'Cl', 'Br', 'I', 'H', 'Si', 'Fe', 'Se', 'Xe',
       'Zr', 'U', 'He', 'Lr', 'Lv', 'Sn', 'As']
CHARGES = [0, 0, 0, 0, 1, -1, 1, -1, 2, -2, 3, -3, 9, 10, 12, -20, 100, 11, 19, -99, 101]
CAPS = [0, 1, 1, 2, 2, 3, 3, 4, 4, 5, 6, 8, 9, 12, 20]


def key_of(el, charge):
    return el if charge == 0 else "%s%+d" % (el, charge)


HUGE = [255, 256, 10 ** 9, 2 ** 31, 2 ** 63 - 1, 2 ** 63, 2 ** 64, 10 ** 30]      # "no limit", the way callers write it


def _finish(t, rng):
    """Callers write '?' anywhere, not last as the presets do; and now and then 'no limit' as a huge integer."""
    if rng.random() < 0.06:
        t[rng.choice(sorted(t))] = rng.choice(HUGE)
    if rng.random() < 0.5:
        items = list(t.items())
        rng.shuffle(items)
        t = dict(items)
    return t


def random_table(rng, nkeys=None, caps=CAPS, q=None):
    t = {"?": rng.choice([0, 1, 2, 4, 8, 12]) if q is None else q}
    for _ in range(rng.randint(0, 12) if nkeys is None else nkeys):
        t[key_of(rng.choice(ELS), rng.choice(CHARGES))] = rng.choice(caps)
    return _finish(t, rng)


def perturbed_preset(rng):
    base = dict(PRESETS[rng.choice(sorted(PRESETS))])
    for k in list(base):
        if rng.random() < 0.3:
            base[k] = max(0, base[k] + rng.choice([-2, -1, 1, 2]))
    if rng.random() < 0.3:
        base["?"] = rng.randint(0, 10)
    if rng.random() < 0.3:
        for k in rng.sample(sorted(base), 3):
            if k != "?":
                del base[k]
    return _finish(base, rng)


def big_table(rng):
    """Scale: a table that lists hundreds of atom kinds (every element, many charge states)."""
    from vmon.smiles_reader import ELEMENTS
    els = sorted(ELEMENTS)
    t = {"?": rng.choice([0, 1, 2, 4, 8])}
    for _ in range(rng.choice([100, 250, 400])):
        t[key_of(rng.choice(els), rng.choice([0, 0, 1, -1, 2, -2, 3, -3, 4, 5, -5, 7, 9, -9]))] = rng.choice(CAPS)
    return _finish(t, rng)


def any_table(rng):
    if rng.random() < 0.02:
        return big_table(rng)
    x = rng.random()
    if x < 0.25:
        return dict(PRESETS[rng.choice(sorted(PRESETS))])
    if x < 0.55:
        return perturbed_preset(rng)
    return random_table(rng)


def neighbour_table(rng, t):
    """A table one small edit away from t: a key removed / added / changed, or '?' changed.  Used for walks through
    related tables (stale-cache detection: the same atom kinds are looked up again under the next table)."""
    t = dict(t)
    keys = [k for k in t if k != "?"]
    x = rng.random()
    if x < 0.35 and keys:
        del t[rng.choice(keys)]                       # removal only: the kind now falls back to '?'
    elif x < 0.55:
        t[key_of(rng.choice(ELS), rng.choice([0, 0, 1, -1, 2]))] = rng.choice(CAPS)
    elif x < 0.8 and keys:
        k = rng.choice(keys)
        t[k] = max(0, t[k] + rng.choice([-3, -2, -1, 1, 2, 3]))
    else:
        t["?"] = rng.choice([0, 1, 2, 3, 4, 6, 8, 12])
    return t


class TableSub(dict):
    """A caller's own dict subclass (config objects often are)."""


def as_caller_dict(t, rng, p_plain=0.8):
    """The table in one of the dict types callers hold it in; all are dicts, so all are valid arguments."""
    import collections
    if rng.random() < p_plain:
        return dict(t)
    x = rng.random()
    if x < 0.35:
        return collections.OrderedDict(t)
    if x < 0.6:
        return collections.defaultdict(int, t)
    if x < 0.8:
        c = collections.Counter()
        c.update(t) if all(isinstance(v, int) for v in t.values()) else dict.update(c, t)
        return c
    return TableSub(t)


def set_table_hostile(sf, t, rng, ctx=None):
    """Set table t the way an untidy caller does: pass a dict, keep the reference, and (sometimes) change or empty
    that dict afterwards.  Returns the table the library reports to be in force.  With copy semantics (property
    C12) the later edits are invisible to the library; every check judges against the REPORTED table, so an
    aliasing library shows up as a contradiction between that table and the translation behaviour."""
    if rng.random() < 0.2:
        # what callers do with what the getters hand out: fetch, then edit (private copies per property C12)
        for name in sorted(PRESETS):
            g = sf.get_preset_constraints(name)
            g[rng.choice(["C", "N", "O", "S", "?"])] = rng.choice([0, 6, 9])
            g.pop("F", None)
        g = sf.get_semantic_constraints()
        g["C"] = 7
        g.clear()
    if isinstance(t, dict) and rng.random() < 0.5:
        for name in sorted(PRESETS):
            if t == PRESETS[name]:
                t = name                      # a preset is mostly selected by its name
                break
    if isinstance(t, str):
        sf.set_semantic_constraints(t)
    else:
        passed = as_caller_dict(t, rng)
        sf.set_semantic_constraints(passed)
    if rng.random() < 0.15:
        # a rejected update right after the accepted one (valid, different entries first, then one bad entry)
        bad, _ = invalid_update(rng, current=sf.get_semantic_constraints())
        if type(bad) is dict:
            bad = as_caller_dict(bad, rng, p_plain=0.6)
        try:
            sf.set_semantic_constraints(bad)
        except Exception:       # noqa - which exception, and atomicity, are C12's business; here it must simply not matter
            pass
        if ctx is not None:
            ctx.count("rejected_update_after_set")
    reported = sf.get_semantic_constraints()
    if not (isinstance(reported, dict) and "?" in reported and
            all(isinstance(k, str) and isinstance(v, int) and not isinstance(v, bool) and v >= 0 for k, v in reported.items())):
        # the library reports a table it would itself refuse (e.g. a rejected update stayed installed)
        if ctx is not None:
            ctx.finding("table-in-force-is-not-a-valid-table", {"requested": repr(t)[:500], "reported": repr(reported)[:500]},
                        "get_semantic_constraints() returns a table with a missing '?', or a non-integer / negative capacity")
        sf.set_semantic_constraints("default")
        return sf.get_semantic_constraints()
    if isinstance(t, str):
        return reported
    x = rng.random()
    if x < 0.25:
        for k in list(passed):
            passed[k] = rng.choice([0, 1, 9])
        passed.pop("?", None)
    elif x < 0.4:
        passed.clear()
    elif x < 0.5:
        passed["?"] = 0
        passed["C"] = 0
    if x < 0.5 and ctx is not None:
        ctx.count("passed_table_mutated_after_set")
    return reported


def invalid_update(rng, current=None):
    """(value, reason) - an update the library must reject.  With `current` (the table in force) a share of the updates
    follow the usual get -> tweak -> set round trip, the tweak being the invalid part."""
    if current and rng.random() < 0.3:
        import decimal
        import fractions
        d = dict(current)
        k = rng.choice(sorted(d))
        x = rng.random()
        if x < 0.5:
            # same number, not an integer: 4.0 == 4, Fraction(4) == 4, ... compare equal to the entry in force
            v = d[k]
            d[k] = rng.choice([float(v), fractions.Fraction(v), decimal.Decimal(v), complex(v, 0), str(v)])
            return d, "entry in force re-sent as %s" % type(d[k]).__name__
        if x < 0.65:
            d[k] = -1 - d[k]
            return d, "entry in force made negative"
        if x < 0.8:
            d.pop("?")
            return d, "table in force without ?"
        if x < 0.9:
            d[k + rng.choice(["\n", " ", "+", "+0"])] = d[k]
            return d, "table in force plus malformed twin key"
        d[k] = None
        return d, "entry in force set to None"
    if rng.random() < 0.4:
        # a valid random table (new, unusual keys first) with one bad entry somewhere after them
        t = random_table(rng, nkeys=rng.randint(1, 5), q=rng.choice([1, 3, 5, 8]))
        items = list(t.items())
        rng.shuffle(items)
        bad = rng.choice([("C", -1), ("O", 1.5), ("Xx", 2), ("N+", 3), ("S", None), ("C+0", 1), ("P", "3"), ("c", 2),
                          ("N+1\n", 3), ("S\n", 2), (" O", 2), ("Fe+2 ", 2)])
        items = [kv for kv in items if kv[0] != bad[0]]     # the bad entry must not be overridden by a valid twin
        items.insert(rng.randint(min(1, len(items)), len(items)), bad)
        d = dict(items)
        if rng.random() < 0.15:
            d.pop("?", None)
            return d, "missing ? (after valid keys)"
        return d, "valid keys then " + repr(bad[0])
    return rng.choice([
        ({"C": 4}, "missing ?"),
        ({"?": 4, "Xx": 1}, "bad element"),
        ({"?": 4, "C": -1}, "negative"),
        ({"?": 4, "C": 1.5}, "float"),
        ({"?": 4, "C+": 1}, "bad key"),
        ("nonsense", "unknown preset"),
        (5, "wrong type"),
        ({"?": 4, "C": 4, 14: 4}, "non-string key"),
        ({"?": 1, None: 2}, "non-string key"),
        ({"?": 3, "N": 1, ("C",): 4}, "non-string key"),
        ({"?": 2, b"C": 4}, "non-string key"),
        (__import__("types").MappingProxyType({"?": 4, "C": 4}), "wrong type (mapping that is not a dict)"),
        ((("?", 4), ("C", 4)), "wrong type"),
        (b"default", "wrong type"),
        (None, "wrong type"),
        ({"?": 4, "c": 2}, "bad element"),
        ({"?": 4, "C+1-1": 2}, "bad key"),
        ([("?", 1)], "wrong type"),
        ({"?": "4"}, "non-integer"),
        ({"?": 4, "C+0": 2}, "non-canonical charge"),
        ({"?": 4, "C+01": 2}, "non-canonical charge"),
        ({"?": 4, "C+²": 2}, "non-canonical charge"),
        ({"?": 4, "": 2}, "bad key"),
        ({"?": -1}, "negative"),
        ({"?": 4, "N": None}, "non-integer"),
        ("Default", "unknown preset"),
        ({"?": 4, "C-": 3}, "bad key"),
        ({"?": 4, "N+1\n": 3}, "bad key (trailing newline)"),
        ({"?": 4, "Cl\n": 1}, "bad key (trailing newline)"),
        ({"?": 4, " C": 3}, "bad key (whitespace)"),
        ({"?": 4, "C ": 3}, "bad key (whitespace)"),
        ({"?": 4, "O-1\t": 1}, "bad key (whitespace)"),
        ({"?\n": 4, "?": 4}, "bad key (trailing newline)"),
        ({"?": 4, "C+1\r": 3}, "bad key (whitespace)"),
    ])
