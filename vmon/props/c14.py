"""C14 - tokenisation utilities agree with each other and with the translators."""
from vmon import env, hooks, scopes
from vmon.hooks import MON, call_guard
from vmon.molgen import random_tree_mol, spell
from vmon.refsem import tokens_with_dots
from vmon.selfgen import LiveGen

ID = "C14"
LEVEL = "exploration"
RULE = ("well-formed strings: symbols of arbitrary bracket-free, dot-free text (letters, digits, punctuation, spaces, Unicode, control "
        "characters, empty body), single dots strictly between symbols, and the empty string; collections of 0-6 such strings. "
        "split_selfies must yield exactly the own tokenisation, len_selfies its length, get_alphabet_from_selfies the symbol set "
        "without '.', also when asked again after the strings went through the encoding utilities and the decoder; every encoder output (random molecules, dataset) must be well formed, and the token tap M6 must show the "
        "decoder consuming exactly these tokens. distinct = distinct string; non-trivial = >= 3 symbols or a dot")
ASSUMPTIONS = ["leading and doubled dots are outside the stated domain and are not judged (split_selfies starts at the first '['); "
               "a single trailing dot is judged"]
BODY = list("CNOHFSPclBrI=#/\\@+-0123456789") + ["Ring", "Branch", "nop", "epsilon", " ", "\t", "é", "٣", "\x00", "(", ")", "%", ":", "_", "expl", "Cl", "\n", "ß", "$", "*", ",", "'", '"']


def shards(tier):
    return 16


def floors(tier):
    return {"strings": 20000, "collections": 2000, "with_dots": 5000, "empty_string": 16, "encoder_outputs": 1000,
            "decoder_token_taps": 2000, "pipeline_reuse": 2000, "unicode_or_control": 2000, "empty_body_symbols": 200, "decoder_cited_tokens_checked": 1500}


def make(rng):
    n = rng.choice([0, 1, 1, 2, 3, 5, 8, 13, 30, 200]) if rng.random() > 0.01 else rng.choice([1000, 3000, 6000])      # scale
    syms = []
    for _ in range(n):
        if rng.random() < 0.5:
            syms.append(rng.choice(['[C]', '[=C]', '[Ring1]', '[Branch1]', '[nop]', '[epsilon]', '[N+1]', '[C@@H1]', '[F]']))
        else:
            syms.append("[" + "".join(rng.choice(BODY) for _ in range(rng.choice([0, 1, 1, 2, 3, 6]))) + "]")
    items = []
    for i, s in enumerate(syms):
        if i and rng.random() < 0.2:
            items.append(".")
        items.append(s)
    if items and rng.random() < 0.08:
        items.append(".")       # one trailing dot: the utilities and the translators treat it consistently
    return items


def run(ctx):
    sf = env.varied(env.load_selfies(), ctx)
    hooks.attach_m6()
    rng = ctx.rng
    quick = ctx.tier == "quick"

    def judge(items, src):
        s = "".join(items)
        payload = {"string": s, "src": src}
        r = call_guard(lambda: list(sf.split_selfies(s)))
        ctx.count("strings")
        if "." in items:
            ctx.count("with_dots")
        if s == "":
            ctx.count("empty_string")
        if any(ord(c) > 127 or ord(c) < 32 for c in s):
            ctx.count("unicode_or_control")
        if "[]" in items:
            ctx.count("empty_body_symbols")
        if r[0] != "ok":
            ctx.finding("split-raises", payload, repr(r)[:300])
        else:
            if r[1] != items:
                ctx.finding("split-differs-from-symbols", payload, "split %r, symbols %r" % (r[1][:12], items[:12]))
            if "".join(r[1]) != s:
                ctx.finding("split-does-not-concatenate-back", payload, "join differs")
        l = call_guard(lambda: sf.len_selfies(s))
        if l[0] != "ok" or l[1] != len(items):
            ctx.finding("len-differs-from-split", payload, "len_selfies=%r, items=%d" % (l, len(items)))
        ctx.case(s, len(items) >= 3 or "." in items, sample={"string": s[:120], "items": len(items)} if 3 <= len(items) <= 12 else None)

    for i in range(5000 if quick else 300000):
        judge(make(rng), "random")
    judge([], "empty")
    for i in range(150 if quick else 4000):
        coll = [make(rng) for _ in range(rng.randint(0, 6) if i % 40 else rng.choice([100, 400]))]      # now and then a whole data set
        strs = ["".join(it) for it in coll]
        if rng.random() < 0.3:
            # a column of a data frame / numpy array: the elements are instances of a str subclass
            strs = [env.StrSub(x) if rng.random() < 0.7 else x for x in strs]
            ctx.count("collections_with_str_subclass_elements")
        want = set(t for it in coll for t in it if t != ".")
        arg = rng.choice([lambda: strs, lambda: tuple(strs), lambda: iter(strs), lambda: (x for x in strs), lambda: set(strs),
                          lambda: dict.fromkeys(strs)])
        r = call_guard(lambda: sf.get_alphabet_from_selfies(arg()))
        ctx.count("collections")
        if r[0] != "ok" or r[1] != want or not isinstance(r[1], set):
            ctx.finding("alphabet-from-selfies-differs", {"strings": strs[:6]}, "got %r want %r" % (
                sorted(r[1])[:8] if r[0] == "ok" else r, sorted(want)[:8]))
        ctx.case(tuple(strs), len(want) >= 2)
    # the same strings once more after a data pipeline has used them: alphabet, vocabulary, padded label / one-hot
    # encodings (single and batch), partially consumed and edited token lists, a decode - the answers for a string do
    # not depend on what was done with it before
    for i in range(150 if quick else 5000):
        coll = [make(rng) for _ in range(rng.randint(1, 5))]
        strs = ["".join(it) for it in coll]
        for it in coll:
            judge(it, "pipeline-first-use")
        want = set(t for it in coll for t in it if t != ".")
        vocab = {t: k for k, t in enumerate(sorted(want | {"[nop]", "."}))}
        width = max(len(it) for it in coll) + rng.randint(0, 4)
        for _ in range(rng.randint(1, 4)):
            k = rng.randrange(len(strs))
            x = rng.random()
            if x < 0.4:
                call_guard(lambda: sf.selfies_to_encoding(strs[k], vocab, pad_to_len=rng.choice([-1, width, width + 3]),
                                                          enc_type=rng.choice(["label", "one_hot", "both"])))
            elif x < 0.6:
                call_guard(lambda: sf.batch_selfies_to_flat_hot(strs, vocab, pad_to_len=width))
            elif x < 0.75:
                g = call_guard(lambda: sf.split_selfies(strs[k]))
                if g[0] == "ok":
                    call_guard(lambda: [next(g[1], None) for _ in range(rng.randint(0, 3))])    # left half consumed
            elif x < 0.9:
                lst = call_guard(lambda: list(sf.split_selfies(strs[k])))
                if lst[0] == "ok":
                    lst[1].append("[nop]")
                    del lst[1][:1]
            else:
                call_guard(lambda: sf.decoder(strs[k]), expected=(sf.DecoderError,))
        ctx.count("pipeline_reuse")
        for it in coll:
            judge(it, "pipeline-after-use")
        r = call_guard(lambda: sf.get_alphabet_from_selfies(strs))
        if r[0] != "ok" or r[1] != want:
            ctx.finding("alphabet-from-selfies-differs", {"strings": strs[:6], "src": "pipeline-after-use"}, "got %r want %r" % (
                sorted(r[1])[:8] if r[0] == "ok" else r, sorted(want)[:8]))
    # encoder outputs are well formed and the decoder consumes exactly these tokens
    sf.set_semantic_constraints("hypervalent")
    smi = []
    for i in range(60 if quick else 2000):
        m = random_tree_mol(rng, rng.choice([1, 3, 8, 20]), ncomp=rng.choice([1, 1, 2, 3]), p_ring=0.2)
        smi.append(spell(m, rng)[0])
    smi += scopes.dataset_smiles(100 if quick else 2000)[ctx.shard::ctx.nshards][: (30 if quick else 10 ** 9)]
    for s in smi:
        r = call_guard(lambda: sf.encoder(s), expected=(sf.EncoderError,))
        if r[0] != "ok":
            continue
        x = r[1]
        ctx.count("encoder_outputs")
        try:
            items = tokens_with_dots(x)
            ok = x != "" and ".." not in x and not x.startswith(".") and not x.endswith(".")
        except ValueError as e:
            items, ok = None, False
        if not ok:
            ctx.finding("encoder-output-not-well-formed", {"smiles": s, "selfies": x}, "not a concatenation of symbols and single inner dots")
            continue
        judge(items, "encoder-output")
        tap(ctx, sf, x, items)
        # the flags of the encoder do not change what it returns for an accepted input
        for fl in ({"attribute": True}, {"strict": False}, {"strict": False, "attribute": True}):
            rf = call_guard(lambda: sf.encoder(s, **fl), expected=(sf.EncoderError,))
            xf = rf[1][0] if (rf[0] == "ok" and fl.get("attribute")) else (rf[1] if rf[0] == "ok" else None)
            ctx.count("encoder_flag_variants")
            if xf != x:
                ctx.finding("encoder-output-not-well-formed", {"smiles": s, "selfies": repr(xf)[:300], "flags": fl},
                            "with %r the encoder returns another string than without (%r)" % (fl, x[:120]))
    g = LiveGen(sf.get_semantic_constraints(), rng)
    for i in range(120 if quick else 4000):
        x = g.string(rng.choice([1, 2, 3]), rng.choice([5, 20, 60]))
        tap(ctx, sf, x, tokens_with_dots(x))
    # encoder outputs decoded under a TIGHTER table than they were made for: fragments then stop early with symbols left over
    for tt in ("octet_rule", {"?": 2, "C": 3}, {"?": 1}):
        sf.set_semantic_constraints("hypervalent")
        outs = []
        for s in smi[:60]:
            r = call_guard(lambda: sf.encoder(s, strict=False), expected=(sf.EncoderError,))
            if r[0] == "ok":
                outs.append(r[1])
        sf.set_semantic_constraints(tt)
        for x in outs:
            tap(ctx, sf, x, tokens_with_dots(x))
    for k, v in MON.counts.items():
        ctx.count(k, v)


def tap(ctx, sf, x, items):
    """M6: tokens the decoder really consumed, fragment by fragment."""
    del MON.token_log[:]
    d = call_guard(lambda: sf.decoder(x), expected=(sf.DecoderError,))
    if d[0] == "esc":
        ctx.finding("escape:%s@%s" % (d[1], d[2]), {"selfies": x}, d[3])
        return
    if d[0] != "ok" or "M6" in MON.unreached:
        return
    frags, cur = [], []
    for t in items:
        if t == ".":
            frags.append(cur)
            cur = []
        else:
            cur.append(t)
    frags.append(cur)
    got = [list(rec) for rec in MON.token_log]
    ctx.count("decoder_token_taps")
    if got != frags:
        ctx.finding("decoder-consumes-different-tokens", {"selfies": x}, "tokenizer tap %r, own tokenisation %r" % (got[:3], frags[:3]))
    # the decoder's own account of the tokens it consumed: every (position, symbol) it cites with attribute=True must be
    # that symbol of the tokenisation (positions count symbols, not '.' and not [nop])
    a = call_guard(lambda: sf.decoder(x, attribute=True), expected=(sf.DecoderError,))
    if a[0] == "ok":
        syms = [t for t in items if t not in (".", "[nop]")]
        ctx.count("decoder_cited_tokens_checked")
        for e in a[1][1]:
            for c in (e.attribution or []):
                if not (isinstance(c.index, int) and 0 <= c.index < len(syms) and syms[c.index] == c.token):
                    ctx.finding("decoder-cites-a-token-that-is-not-there", {"selfies": x},
                                "cites (%r, %r); symbol %r of the string is %r" % (
                                    c.index, c.token, c.index, syms[c.index] if isinstance(c.index, int) and 0 <= c.index < len(syms) else None))
                    return


def replay(ctx, payload):
    sf = env.load_selfies()
    s = payload.get("string", payload.get("selfies", ""))
    r = call_guard(lambda: list(sf.split_selfies(s)))
    ctx.finding("replay-observation", payload, repr(r)[:300] + " len=%r" % (call_guard(lambda: sf.len_selfies(s)),))
