"""G8: random API histories, executed against the real library and a dict/set
model of the configuration API (C11, C12)."""
import copy

from vmon import tablegen
from vmon.hooks import call_guard
from vmon.oracles import compare_with_reference, judge_output
from vmon.props.c07 import model_alphabet
from vmon.refsem import ref_decode, RefReject

PROBES = ['[C][=C][#C]', '[S][=S][=S][=S]', '[N][=N][#N][Branch1][C][F]', '[Fe][=Fe][Xe][=Xe]',
          '[P][Branch1][C][F][Branch1][C][F][Branch1][C][F][Branch1][C][F][F]', '[Zr-3][=C]', '[Cl][=C]',
          '[O+1][=C][Ring1][C]', '[C][I][=C]', '[B-1][=C][=C][=C]', '[C][=N+1][=C][Ring1][C]']
F12 = "F12-alphabet-alias"
FRESH_ELEMENTS = ["Si", "Se", "Ge", "Na", "Mg", "Al", "K", "Ca", "Ti", "V", "Cr", "Mn", "Co", "Ni", "Cu", "Zn", "Ga", "As", "Rb", "Sr",
                  "Y", "Nb", "Mo", "Ru", "Rh", "Pd", "Ag", "Cd", "In", "Sn", "Sb", "Te", "Cs", "Ba", "W", "Re", "Os", "Ir", "Pt",
                  "Au", "Hg", "Tl", "Pb", "Bi", "La", "Ce", "Nd", "Sm", "Eu", "Gd", "U", "Pu", "Li", "Be", "Ne", "Ar", "Kr"]


class ApiModel(object):
    """Runs ops on the real API and on the model; reports disagreements."""

    def __init__(self, ctx, sf, check_model=True):
        self.ctx = ctx
        self.sf = sf
        self.check = check_model
        self.log = []              # the call list (replay material)
        self.passed = []           # dicts handed to the setter (to be mutated later)
        self.reset()

    def reset(self):
        self.sf.set_semantic_constraints("default")
        self.model = dict(tablegen.PRESETS["default"])
        self.added, self.removed = set(), set()
        self.log = [["set", "default"]]
        self.passed = []

    # ----------------------------------------------------------------- ops
    def disagree(self, key, detail):
        if self.check:
            self.ctx.finding(key, {"history": copy.deepcopy(self.log[-60:])}, detail)

    def op_set_preset(self, rng):
        name = rng.choice(sorted(tablegen.PRESETS))
        self.log.append(["set", name])
        r = call_guard(lambda: self.sf.set_semantic_constraints(name))
        if r[0] != "ok":
            self.disagree("valid-update-rejected", "preset %r: %r" % (name, r))
            return
        self.model = dict(tablegen.PRESETS[name])
        self.added, self.removed = set(), set()
        self.ctx.count("ops.set_preset")

    def op_set_custom(self, rng):
        t = tablegen.any_table(rng) if rng.random() < 0.5 else tablegen.random_table(rng)
        passed = tablegen.as_caller_dict(t, rng)
        self.log.append(["set", dict(t)])
        r = call_guard(lambda: self.sf.set_semantic_constraints(passed))
        if r[0] != "ok":
            self.disagree("valid-update-rejected", "table %r: %r" % (t, r))
            return
        self.model = dict(t)
        self.added, self.removed = set(), set()
        self.passed.append(passed)
        self.ctx.count("ops.set_custom")

    def op_set_neighbour(self, rng):
        """A table one edit away from the current one (key removed / added / changed)."""
        t = tablegen.neighbour_table(rng, self.model)
        passed = tablegen.as_caller_dict(t, rng)
        self.log.append(["set", dict(t)])
        r = call_guard(lambda: self.sf.set_semantic_constraints(passed))
        if r[0] != "ok":
            self.disagree("valid-update-rejected", "table %r: %r" % (t, r))
            return
        self.model = dict(t)
        self.added, self.removed = set(), set()
        self.passed.append(passed)
        self.ctx.count("ops.set_neighbour")

    def op_set_invalid(self, rng):
        value, reason = tablegen.invalid_update(rng, current=dict(self.model))
        if type(value) is dict:
            value = tablegen.as_caller_dict(value, rng, p_plain=0.6)      # an invalid table is invalid in any dict type
        before = self.observe()
        self.log.append(["set-invalid", repr(value), reason])
        r = call_guard(lambda: self.sf.set_semantic_constraints(value))
        self.ctx.count("ops.set_invalid")
        self.ctx.see("invalid_reasons", reason)
        if r[0] == "ok":
            self.disagree("invalid-update-accepted", "%r (%s) was accepted" % (value, reason))
            # resynchronise the model with whatever the library now holds
            self.model = self.sf.get_semantic_constraints()
            self.added, self.removed = set(), set()
            return
        if r[1] != "ValueError" and reason != "non-string key":
            # (a key that is not a string is refused with whatever the first string operation on it raises; the
            # statement names ValueError for the listed kinds of bad update only - atomicity is judged for all)
            self.disagree("rejection-not-ValueError", "%r (%s) raised %s" % (value, reason, r[1]))
        after = self.observe()
        if after != before:
            what = [k for k in ("table", "alphabet", "probes") if before[k] != after[k]]
            self.disagree("rejected-update-not-atomic", "%r (%s) changed %s" % (value, reason, what))
        else:
            self.ctx.count("atomic_rejections_verified")
        # probes that were NOT run before the rejection (a memo filled by the 'before' observation could hide a
        # leak): atom kinds picked fresh, judged by the reference derivation under the model table
        for _ in range(2):
            el = rng.choice(FRESH_ELEMENTS)
            ch = rng.choice(["", "", "+1", "-1", "+2", "-3"])
            p = "[%s%s]" % (el, ch) + "[Branch1][C][F]" * rng.choice([2, 5, 9]) + "[=O]"
            self._probe(p, "fresh-probe-after-rejected-update")

    def op_get_table(self, rng):
        self.log.append(["get"])
        g = self.sf.get_semantic_constraints()
        self.ctx.count("ops.get_table")
        if g != self.model or not isinstance(g, dict) or any(type(v) is not int for v in g.values()):
            self.disagree("get-differs-from-set", "get_semantic_constraints() = %r, model %r" % (g, self.model))
        if rng.random() < 0.7:   # aliasing probe: really mutate what was returned
            self.log.append(["mutate-returned-table"])
            g["C"] = 77
            g.pop("?", None)
            g["Zz"] = 1
            self.ctx.count("mutations.returned_table")

    def op_get_preset(self, rng):
        name = rng.choice(sorted(tablegen.PRESETS))
        self.log.append(["get-preset", name])
        g = self.sf.get_preset_constraints(name)
        self.ctx.count("ops.get_preset")
        if g != tablegen.PRESETS[name]:
            self.disagree("preset-changed", "preset %s = %r" % (name, g))
        if rng.random() < 0.7:
            self.log.append(["mutate-returned-preset", name])
            g["N"] = 42
            g.pop("?", None)
            self.ctx.count("mutations.returned_preset")
        if rng.random() < 0.1:
            r = call_guard(lambda: self.sf.get_preset_constraints("nope"))
            if not (r[0] == "esc" and r[1] == "ValueError"):
                self.disagree("unknown-preset-not-ValueError", repr(r))

    def op_get_alphabet(self, rng):
        self.log.append(["get-alphabet"])
        a = self.sf.get_semantic_robust_alphabet()
        self.ctx.count("ops.get_alphabet")
        exp = model_alphabet(self.model)
        if set(a) != exp:
            if set(a) == (exp | self.added) - self.removed:
                self.ctx.count("f12_observed")
                if self.check:
                    self.ctx.finding(F12, {"history": copy.deepcopy(self.log[-40:])},
                                     "alphabet = model alphabet + %r - %r (the caller's own earlier mutations of the returned set)"
                                     % (sorted(self.added)[:5], sorted(self.removed)[:5]))
            else:
                self.disagree("alphabet-differs-from-model", "missing %r extra %r" % (
                    sorted(exp - set(a))[:6], sorted(set(a) - exp)[:6]))
        if rng.random() < 0.4 and isinstance(a, set):
            junk = rng.choice(["[junk]", "[Xx]", "[=Zz]"])
            drop = rng.choice(["[C]", "[Ring1]", "[=Branch2]"])
            self.log.append(["mutate-returned-alphabet", junk, drop])
            a.add(junk)
            a.discard(drop)
            self.added.add(junk)
            self.added.discard(drop)
            self.removed.add(drop)
            self.removed.discard(junk)
            self.ctx.count("mutations.returned_alphabet")

    def op_mutate_passed(self, rng):
        if not self.passed:
            return
        d = rng.choice(self.passed)
        self.log.append(["mutate-passed-table"])
        d["C"] = 99
        d.pop("?", None)
        d["O"] = 0
        self.ctx.count("mutations.passed_table")

    def op_probe_decode(self, rng):
        p = rng.choice(PROBES)
        self._probe(p, "probe")

    def _probe(self, p, why):
        self.log.append(["decode", p])
        r = call_guard(lambda: self.sf.decoder(p), expected=(self.sf.DecoderError,))
        self.ctx.count("ops.probe_decode")
        try:
            ref = ref_decode(p, self.model)
        except RefReject:
            ref = None
        if r[0] == "esc":
            self.disagree("escape:%s@%s" % (r[1], r[2]), r[3])
        elif (r[0] == "ok") != (ref is not None):
            self.disagree("translation-ignores-current-table", "decoder(%s) -> %r, model table says %s" % (p, r, "reject" if ref is None else "accept"))
        elif ref is not None:
            st, m, detail = judge_output(r[1], None, accept=lambda mm: compare_with_reference(mm, ref))
            if st not in ("ok", "f1"):
                self.disagree("translation-ignores-current-table", "decoder(%s) = %s under model table: %s" % (p, r[1], detail))

    def op_utilities(self, rng, pool_d):
        """The other public functions, interleaved with the configuration and translation calls (state carried
        between calls of different API functions): results are checked against their own simple laws."""
        sf = self.sf
        x = rng.choice(pool_d)
        self.log.append(["utilities", x[:200]])
        try:
            toks = list(sf.split_selfies(x))
            ok = "".join(toks) == x and sf.len_selfies(x) == len(toks)
            alpha = sf.get_alphabet_from_selfies([x, "", x])
            ok = ok and alpha == set(t for t in toks if t != ".")
            voc = sorted(alpha | {"[nop]", "."})
            stoi = {s: i for i, s in enumerate(voc)}
            lab = sf.selfies_to_encoding(x, stoi, pad_to_len=len(toks) + 2, enc_type="label")
            ok = ok and lab == [stoi[t] for t in toks] + [stoi["[nop]"]] * 2
            ok = ok and sf.encoding_to_selfies(lab, {i: s for s, i in stoi.items()}, "label") == x + "[nop][nop]"
        except Exception as e:   # noqa
            ok = False
            self.disagree("utility-raises-in-history", "%s: %r" % (type(e).__name__, e))
            return
        self.ctx.count("ops.utilities")
        if not ok:
            self.disagree("utility-law-broken-in-history", "split/len/alphabet/encoding laws do not hold for %r" % x[:200])

    def op_set_default_form(self, rng):
        """set_semantic_constraints() with no argument = the 'default' preset (documented default argument)."""
        self.log.append(["set", "default"])
        r = call_guard(lambda: self.sf.set_semantic_constraints())
        if r[0] != "ok":
            self.disagree("valid-update-rejected", "set_semantic_constraints() with no argument: %r" % (r,))
            return
        self.model = dict(tablegen.PRESETS["default"])
        self.added, self.removed = set(), set()
        self.ctx.count("ops.set_preset")
        self.ctx.count("ops.set_default_form")

    def op_translate(self, rng, pool_d, pool_e):
        if rng.random() < 0.6:
            x = rng.choice(pool_d)
            fl = {"attribute": rng.random() < 0.2, "compatible": rng.random() < 0.1}
            self.log.append(["decode", x[:200], fl])
            call_guard(lambda: self.sf.decoder(x, **fl), expected=(self.sf.DecoderError,))
        else:
            s = rng.choice(pool_e)
            fl = {"strict": rng.random() < 0.5, "attribute": rng.random() < 0.2}
            self.log.append(["encode", s[:200], fl])
            call_guard(lambda: self.sf.encoder(s, **fl), expected=(self.sf.EncoderError,))
        self.ctx.count("ops.translate")

    # ------------------------------------------------------------ observers
    def observe(self):
        t = self.sf.get_semantic_constraints()
        a = set(self.sf.get_semantic_robust_alphabet())
        d = []
        for p in PROBES:
            r = call_guard(lambda: self.sf.decoder(p), expected=(self.sf.DecoderError,))
            d.append(r[1] if r[0] == "ok" else r[0])
        return {"table": t, "alphabet": a, "probes": d}

    def step(self, rng, pool_d, pool_e):
        op = rng.random()
        if op < 0.02:
            self.op_set_default_form(rng)
        elif op < 0.12:
            self.op_set_preset(rng)
        elif op < 0.22:
            self.op_set_custom(rng)
        elif op < 0.30:
            self.op_set_neighbour(rng)
        elif op < 0.45:
            self.op_set_invalid(rng)
        elif op < 0.55:
            self.op_get_table(rng)
        elif op < 0.62:
            self.op_get_preset(rng)
        elif op < 0.75:
            self.op_get_alphabet(rng)
        elif op < 0.80:
            self.op_mutate_passed(rng)
        elif op < 0.86:
            self.op_probe_decode(rng)
        elif op < 0.90:
            self.op_utilities(rng, pool_d)
        else:
            self.op_translate(rng, pool_d, pool_e)
