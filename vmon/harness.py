"""Worker-side context: counters, case accounting, findings, result file."""
import array
import collections
import hashlib
import json
import os
import random
import struct
import time
import traceback

MAX_SAMPLES = 6
MAX_FINDINGS_PER_KEY = 5


def h64(*parts):
    """Stable 64-bit hash of the textual form of parts."""
    m = hashlib.blake2b(digest_size=8)
    for p in parts:
        if not isinstance(p, (bytes, bytearray)):
            p = repr(p).encode("utf-8", "surrogatepass")
        m.update(p)
        m.update(b"\x00")
    return struct.unpack("<Q", m.digest())[0]


def derive_rng(seed, prop, shard, stream=""):
    return random.Random(h64("vmon", seed, prop, shard, stream))


class MonitorViolation(AssertionError):
    """Raised by an inline monitor (M1-M4) from inside the monitored call."""

    def __init__(self, monitor, msg):
        AssertionError.__init__(self, "%s: %s" % (monitor, msg))
        self.monitor = monitor
        self.msg = msg


class OracleError(Exception):
    """An oracle could not judge a case (bug in the oracle or generator)."""


class Ctx(object):
    def __init__(self, prop, tier, seed, shard, nshards, outfile=None):
        self.prop = prop
        self.tier = tier
        self.seed = seed
        self.shard = shard
        self.apis = []
        self.nshards = nshards
        self.outfile = outfile
        self.rng = derive_rng(seed, prop, shard)
        self.counters = collections.Counter()
        self.evaluations = 0
        self.hashes = set()
        self.samples = []
        self.findings = {}       # key -> {"count", "items": [...]}
        self.inconclusive = []
        self.t0 = time.time()
        self.notes = {}
        self.sets = collections.defaultdict(set)   # named coverage sets

    # ------------------------------------------------------------ accounting
    def sub_rng(self, stream):
        return derive_rng(self.seed, self.prop, self.shard, stream)

    def case(self, ident, nontrivial, sample=None):
        """Account one explored case.  `ident` identifies the case (input,
        table, flags ...); it is hashed for the distinct count only when the
        case is non-trivial by the property's rule."""
        self.evaluations += 1
        if nontrivial:
            self.hashes.add(h64(ident))
            if sample is not None and len(self.samples) < MAX_SAMPLES:
                self.samples.append(sample)

    def count(self, key, n=1):
        self.counters[key] += n

    def see(self, name, item):
        self.sets[name].add(item)

    def finding(self, key, payload, detail):
        """Report a refuting observation.  `key` is the mechanism key
        (None/'' = unclassified); the runner decides whether the key is a
        listed known finding or a VIOLATION."""
        key = key or "unclassified"
        f = self.findings.setdefault(key, {"count": 0, "items": []})
        f["count"] += 1
        if len(f["items"]) < MAX_FINDINGS_PER_KEY:
            f["items"].append({"payload": payload, "detail": str(detail)[:2000]})

    def inconclusive_reason(self, reason):
        if len(self.inconclusive) < 20:
            self.inconclusive.append(reason)

    def oracle_crash(self, payload):
        """An exception inside oracle/generator code: never swallowed."""
        self.counters["oracle_crash"] += 1
        self.finding("oracle-crash", payload, traceback.format_exc())

    # --------------------------------------------------------------- output
    def dump(self):
        res = {
            "prop": self.prop, "tier": self.tier, "seed": self.seed,
            "shard": self.shard, "nshards": self.nshards,
            "evaluations": self.evaluations,
            "counters": dict(self.counters),
            "sets": {k: sorted(map(_jsonable, v), key=repr) for k, v in self.sets.items()},
            "samples": self.samples,
            "findings": self.findings,
            "inconclusive": self.inconclusive,
            "notes": self.notes,
            "wall_s": round(time.time() - self.t0, 3),
            "n_hashes": len(self.hashes),
        }
        if self.outfile:
            hp = self.outfile + ".hashes"
            with open(hp, "wb") as fh:
                array.array("Q", sorted(self.hashes)).tofile(fh)
            tmp = self.outfile + ".tmp"
            with open(tmp, "w") as fh:
                json.dump(res, fh, default=_jsonable)
            os.replace(tmp, self.outfile)
        return res


def _jsonable(x):
    if isinstance(x, (set, frozenset)):
        return sorted(map(_jsonable, x), key=repr)
    if isinstance(x, tuple):
        return [_jsonable(i) for i in x]
    if isinstance(x, bytes):
        return x.decode("latin-1")
    if isinstance(x, (int, float, str, bool, type(None), list, dict)):
        return x
    return repr(x)
