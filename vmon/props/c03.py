"""C03 - SMILES -> SELFIES -> SMILES preserves the molecule atom for atom."""
from vmon import env, hooks, scopes, tablegen
from vmon.hooks import MON, call_guard
from vmon.molgen import random_tree_mol, spell, macrocycle, from_read, GAtom, symbol_family_smiles
from vmon.aromgen import standard_system, link_systems, pi_set, single_ring_bonds
from vmon.matching import exact_pm
from vmon.roundtrip import roundtrip
from vmon.smiles_reader import read_smiles, SmilesSyntaxError

ID = "C03"
LEVEL = "exploration"
RULE = ("random valence-respecting molecules (1-60 atoms, multi-component, bracket atoms with H/charge/isotope, double/triple "
        "bonds, ring closures) generated under random accepted tables, each written in 3-6 random spellings (root, DFS and "
        "branch order, ring-digit order, label policy incl. mixed 1/%01 spellings, explicit '-', ring-bond symbol on either "
        "end, bracket variants); macrocycles and long branches with spans needing 1, 2 and 3 index symbols; the repository's "
        "dataset SMILES in their original and two re-spelled forms. Input and decoder(encoder(input)) are both read by the "
        "independent reader and compared index by index. distinct = distinct (table, spelling); non-trivial = at least 4 "
        "atoms and at least one ring bond or branch in the input")
ASSUMPTIONS = ["the independent SMILES reader is correct on both sides of the comparison",
               "the molecule generator is not trusted: an input the reader rejects fails the run as a generator bug"]


def shards(tier):
    return 16


def floors(tier):
    return {"roundtrips_ok": 5000, "M1.encoder_graphs": 5000, "M2.writes": 5000, "span>=17": 20,
            "span>=257": 4, "dataset_ok": 300, "respelled_ok": 300, "mixed_label_spellings": 50, "loosened_table_molecules": 500, "encoder_rejects": 100, "aromatic_roundtrips_ok": 300, "symbol_family_ok": 150, "decode_first_after_switch": 100, "encoder_flag_variants": 2000, "repeated_translations": 1000}


def _nontrivial(m):
    return len(m.atoms) >= 4 and (m.n_ring_bonds + m.n_branches) >= 1


def run(ctx):
    sf = env.varied(env.load_selfies(), ctx)
    hooks.attach_m1()
    hooks.attach_m1_encoder()
    hooks.attach_m2()
    rng = ctx.rng
    quick = ctx.tier == "quick"

    recent = []

    def case(s, table, tname, src, check_stereo=False, extra=None):
        st, mi, mo, x = roundtrip(ctx, sf, s, table, check_stereo, src, extra)
        if x:
            recent.append(x)
            del recent[:-20]
        ctx.case((tname, s), st == "ok" and _nontrivial(mi),
                 sample={"smiles": s[:200], "selfies": (x or "")[:200]} if (st == "ok" and len(s) > 12) else None)
        if st == "ok":
            ctx.count("roundtrips_ok")
            if "%0" in s:
                ctx.count("mixed_label_spellings")
        return st

    # --- G5 x G4
    nmol = 1000 if quick else 20000
    for i in range(nmol):
        if i % 25 == 0:
            t = tablegen.any_table(rng)
            if rng.random() < 0.5:
                t = dict(tablegen.PRESETS[rng.choice(["default", "hypervalent", "octet_rule"])])
            try:
                sf.set_semantic_constraints(dict(t))
            except ValueError:
                continue
            table = sf.get_semantic_constraints()
            tname = "t%d" % i
            if recent and rng.random() < 0.5:
                # the first call after the switch is a decode (of SELFIES made under the previous table), not an encode
                for xx in recent[-5:]:
                    call_guard(lambda: sf.decoder(xx), expected=(sf.DecoderError,))
                ctx.count("decode_first_after_switch")
        gen_table = table
        if i % 5 == 4:
            # generated under a loosened table: some atoms sit above capacity.  The encoder should reject those;
            # whatever it accepts with strict=True must still survive the round trip
            gen_table = {k: v + rng.choice([0, 1, 1, 2]) for k, v in table.items()}
            ctx.count("loosened_table_molecules")
        m = random_tree_mol(rng, rng.choice([1, 2, 3, 6, 10, 20, 40, 60] * 3 + [150, 400]), ncomp=rng.choice([1, 1, 1, 2, 3, 3, 12]),
                            p_ring=rng.choice([0.05, 0.15, 0.4]), p_chiral=0.1, p_stereo=0.1, table=gen_table,
                            p_bracket=rng.choice([0.15, 0.15, 0.5]))
        if not m.atoms:
            continue
        accepted = set()
        for k in range(rng.choice([3, 4, 6])):
            try:
                s, order, tags, marks = spell(m, rng, mix_labels=rng.random() < 0.4,
                                               digits_after_branch=rng.choice([0, 0, 0, 0.5]),
                                               spanning=rng.choice(["dfs", "dfs", "random"]))
            except ValueError:
                ctx.count("too_many_open_labels")
                break
            st = case(s, table, tname, "G5")
            accepted.add(st in ("ok", "violation"))
        if len(accepted) > 1:
            ctx.finding("acceptance-depends-on-spelling", {"smiles": s, "table": table}, "spellings of one molecule differ in acceptance")

    # --- aromatic input: kekulizable ring systems, also joined by explicit single bonds between aromatic atoms
    sf.set_semantic_constraints({"?": 12})
    table = sf.get_semantic_constraints()
    for i in range(120 if quick else 3000):
        parts = [standard_system(rng, nrings=rng.choice([1, 2, 3]), sizes=rng.choice([(5, 6, 6, 7), (6,), (6, 8), (4, 6, 8)]), chords=0)
                 for _ in range(rng.choice([1, 2, 2, 3]))]
        m, kind_of, ae = link_systems(rng, parts) if len(parts) > 1 else parts[0]
        if rng.random() < 0.5:
            ae = single_ring_bonds(rng, m, kind_of, ae, k=rng.choice([1, 1, 2]))
        P, unknown = pi_set(kind_of)
        adj = {v: [] for v in range(len(m.atoms))}
        for a, b in ae:
            adj[a].append(b)
            adj[b].append(a)
        kek = exact_pm(P, {v: [w for w in adj[v] if w in P] for v in P})
        # systems without a Kekule structure are fed as well: the encoder should reject them (C05 judges that); whatever
        # it accepts must survive the round trip
        if rng.random() < 0.25:
            # heavily isotope-labelled systems (the label must not change how the atom is treated).  A labelled atom is a
            # bracket atom, so the implicit H of the organic-subset spelling has to be written out: normal valence minus
            # sigma bonds (an exocyclic double bond counts twice) minus one if the atom needs a pi bond
            for v_, a_ in enumerate(m.atoms):
                if a_.aromatic and a_.isotope is None and a_.element in ("C", "N") and not a_.charge and rng.random() < 0.6:
                    if a_.hcount is None:
                        sigma = sum((2 if o == 2 else 1) for (x_, y_), o in m.bonds.items() if v_ in (x_, y_))
                        a_.hcount = max(0, {"C": 4, "N": 3}[a_.element] - sigma - (1 if v_ in P else 0))
                    a_.isotope = {"C": 13, "N": 15}[a_.element]
        for k in range(3 if kek else 2):
            uc = rng.random() < 0.15
            s, order, _, _ = spell(m, rng, upper_colon=uc)
            if uc:
                ctx.count("aromatic_spelled_upper_case_with_colon_bonds")
            st, mi, mo, x = roundtrip(ctx, sf, s, table, False, "aromatic")
            ctx.case(("q12", s), st == "ok")
            if st != "ok":
                continue
            ctx.count("aromatic_roundtrips_ok")
            # "aromatic input bonds become a consistent single/double assignment": exactly one double bond on a former
            # aromatic bond at every atom that needs one (generator-known set P), none at the others
            inv = {g_: k_ for k_, g_ in enumerate(order)}
            dbl = {}
            for kx, o in mi.bonds.items():
                if o == 1.5 and mo.bonds.get(kx) == 2:
                    dbl[kx[0]] = dbl.get(kx[0], 0) + 1
                    dbl[kx[1]] = dbl.get(kx[1], 0) + 1
            Pw = {inv[g_] for g_ in P}
            in_system = set(x_ for kx, o in mi.bonds.items() if o == 1.5 for x_ in kx)
            bad = [a_.idx for a_ in mi.atoms if a_.idx in in_system and dbl.get(a_.idx, 0) != (1 if a_.idx in Pw else 0)]
            if bad and not unknown:
                ctx.finding("aromatic-assignment-inconsistent", {"smiles": s, "selfies": x, "table": table},
                            "atoms %r do not carry exactly the double bond they need inside the former aromatic system" % bad[:6])

    # --- macrocycles / long branches: index lengths 1, 2, 3
    sf.set_semantic_constraints("default")
    table = sf.get_semantic_constraints()
    sizes = [5, 16, 17, 18, 40, 255, 256, 257, 258, 300, 1000] + ([] if quick else [2000, 3700, 4090])
    for n in sizes[ctx.shard % 3::3] if quick else sizes:
        for blen in (0, 20, 300):
            if n + blen + 4 > 4096:
                blen = 0          # keep every ring span below 16^3 symbols (the documented limit)
            m = macrocycle(rng, n, tail=rng.randint(0, 3), branch_len=blen)
            for k in range(2):
                s, order, _, _ = spell(m, rng, label_mode=rng.choice(["smallest", "percent"]), variants=False)
                st = case(s, table, "default", "macrocycle")
                if st == "ok":
                    if n >= 18:
                        ctx.count("span>=17")
                    if n >= 258:
                        ctx.count("span>=257")
            # the canonical spelling whose ring span is exactly n-1
            s = "C1" + "C" * (n - 2) + "C1" + "O" * (blen and 1)
            case(s, table, "default", "macrocycle-linear")

    for s, tag in list(symbol_family_smiles(rng))[ctx.shard::ctx.nshards]:
        if case(s, table, "default", "symbol-family:" + tag, check_stereo=True) == "ok":
            ctx.count("symbol_family_ok")

    # --- dataset molecules: original spelling (with stereo) and two re-spellings
    t = dict(tablegen.PRESETS["hypervalent"], **{"P": 7, "P-1": 8, "P+1": 6, "?": 12})
    sf.set_semantic_constraints(t)
    table = sf.get_semantic_constraints()
    data = scopes.dataset_smiles(400 if quick else 100000)
    for s in data[ctx.shard::ctx.nshards][: (150 if quick else 10 ** 9)]:
        if "*" in s or "$" in s:
            continue
        try:
            rm = read_smiles(s)
        except SmilesSyntaxError as e:
            ctx.count("dataset_reader_rejects")
            ctx.see("dataset_reader_reject_codes", e.code)
            continue
        st = case(s, table, "dataset", "dataset", check_stereo=True)
        if st == "ok":
            ctx.count("dataset_ok")
        g = from_read(rm)
        acc = {st in ("ok", "violation")}
        for k in range(2):
            try:
                s2, _, _, _ = spell(g, rng, mix_labels=rng.random() < 0.3)
            except ValueError:
                break
            st2 = case(s2, table, "dataset", "dataset-respelled")
            acc.add(st2 in ("ok", "violation"))
            if st2 == "ok":
                ctx.count("respelled_ok")
        if len(acc) > 1:
            ctx.finding("acceptance-depends-on-spelling", {"smiles": s, "respelled": s2, "table": table},
                        "dataset molecule and its re-spelling differ in acceptance")
    for k, v in MON.counts.items():
        ctx.count(k, v)
    for u in MON.unreached:
        ctx.see("unreached_monitors", u)


def replay(ctx, payload):
    sf = env.load_selfies()
    hooks.attach_m1()
    hooks.attach_m1_encoder()
    hooks.attach_m2()
    sf.set_semantic_constraints(payload["table"])
    roundtrip(ctx, sf, payload.get("smiles_full", payload["smiles"]), payload["table"],
              payload.get("src") == "dataset", "replay")
