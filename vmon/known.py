"""Known findings: committed file, read-only at run time.

A finding reported by a worker carries a *mechanism key* computed by the
property's own classifier (never an input hash or a seed).  It is a
KNOWN-FINDING only if known_findings.json lists that (property, key) with
status "known".  "fixed" records suppress nothing."""
import json
import os

from vmon import env


class Known(object):
    def __init__(self, data):
        self.data = data
        self.index = {}
        for e in data.get("findings", []):
            if e.get("status") == "known":
                for p in e["properties"]:
                    self.index[(p, e["key"])] = e

    def match(self, prop, key):
        return self.index.get((prop, key))


def load():
    p = os.path.join(env.ROOT, "known_findings.json")
    if not os.path.exists(p):
        return Known({})
    return Known(json.load(open(p)))
