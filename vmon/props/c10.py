"""C10 - encoder output is always decodable, standardised and stable under
re-encoding."""
import random

from vmon import env, hooks, tablegen
from vmon.aromgen import standard_system
from vmon.hooks import MON, call_guard
from vmon.molgen import random_tree_mol, spell, macrocycle, symbol_family_smiles
from vmon.refsem import classify, capacity, tokens_with_dots
from vmon.smiles_reader import ELEMENTS, read_smiles, SmilesSyntaxError

ID = "C10"
LEVEL = "exploration"
RULE = ("random molecules whose atoms are re-dressed with any of the 118 elements, H counts 0-9, charges -20..+20 and +-100 (incl. "
        "zero digits), isotopes 0..1000, chirality tags and stereo bonds, under {'?':12}, presets and random tables; macrocycles and "
        "long branches needing 1, 2 and 3 index symbols; kekulizable aromatic systems. For each accepted SMILES: every emitted token is "
        "inside the reference symbol grammar and has non-negative capacity under K; decoder(x) does not raise; "
        "encoder(decoder(x)) == x; the same molecule written with the same structural choices but different equivalent atom "
        "spellings ([N+]/[N+1], [CH]/[CH1], [Fe++]/[Fe+2], H0, atom classes) gives the same SELFIES. distinct = distinct "
        "(table, SMILES); non-trivial = >= 3 atoms and at least one bracket atom, ring or branch")
ASSUMPTIONS = ["'symbols the decoder accepts' is decided by the reference symbol grammar (vmon/refsem.py), which uses the corrected "
               "charge pattern (non-zero number without leading zero)"]
EL = sorted(ELEMENTS)


def shards(tier):
    return 16


def floors(tier):
    return {"accepted": 5000, "stable": 5000, "variant_pairs_equal": 2000, "variant_pairs_with_different_text": 500,
            "extreme_atoms": 3000, "charge_with_zero_digit": 100, "index_len2": 20, "index_len3": 4, "aromatic_ok": 50,
            "tokens_checked": 50000, "cross_table_decodes": 300, "first_seen_under_tight_table": 1000, "symbol_family_accepted": 400, "set:symbol_families": 12, "aromatic_tight_accepted": 100}


def dress(m, rng, p=0.6):
    for a in m.atoms:
        if rng.random() < p:
            a.element = rng.choice(EL)
            a.hcount = rng.choice([0, 0, 1, 2, 3, 9])
            a.charge = rng.choice([0, 0, 1, -1, 2, 9, 10, -10, 12, 20, -15, 100, -100, 101, 3, -3])
            a.isotope = rng.choice([None, None, 0, 1, 13, 235, 999, 1000])
            a.chiral = True if rng.random() < 0.1 else None


from vmon.oracles import F1_KEY  # noqa: E402
from vmon.smiles_reader import has_long_percent_run  # noqa: E402
from vmon.roundtrip import _needs_four_index_symbols  # noqa: E402


def run(ctx):
    sf = env.varied(env.load_selfies(), ctx)
    hooks.attach_m1()
    hooks.attach_m1_encoder()
    hooks.attach_m2()
    rng = ctx.rng
    quick = ctx.tier == "quick"

    def check(s, table, tname, src, s_variant=None):
        payload = {"smiles": s, "table": table, "src": src}
        r = call_guard(lambda: sf.encoder(s), expected=(sf.EncoderError,))
        for mon, msg in MON.drain():
            ctx.finding("monitor-" + mon, payload, msg)
        if r[0] == "err":
            ctx.count("encoder_rejects")
            ctx.case((tname, s), False)
            return None
        if r[0] == "esc":
            ctx.finding("escape:%s@%s" % (r[1], r[2]), payload, r[3])
            return None
        x = r[1]
        ctx.count("accepted")
        try:
            toks = tokens_with_dots(x)
        except ValueError as e:
            ctx.finding("output-not-well-formed", dict(payload, selfies=x), str(e))
            return None
        if ".." in x or x.startswith(".") or x.endswith(".") or x == "":
            ctx.finding("output-not-well-formed", dict(payload, selfies=x), "empty fragment")
        nb = 0
        for t in toks:
            if t == ".":
                continue
            c = classify(t)
            ctx.count("tokens_checked")
            if c is None:
                if _needs_four_index_symbols(t):
                    # a ring span / branch length of 16^3 symbols or more: outside the property's domain
                    ctx.count("beyond_three_index_symbols")
                    return None
                ctx.finding("emits-symbol-outside-grammar", dict(payload, selfies=x[:500], symbol=t), t)
                break
            if c[0] == "atom":
                if c[4] is not None or c[5] or c[6] or c[7]:
                    nb += 1
                if c[7] and "0" in str(abs(c[7])):
                    ctx.count("charge_with_zero_digit")
                if capacity(table, c[3], c[7]) - (c[6] or 0) < 0:
                    ctx.finding("emits-symbol-over-capacity", dict(payload, symbol=t), t)
            elif c[0] in ("ring", "branch"):
                if c[2] == 2:
                    ctx.count("index_len2")
                elif c[2] == 3:
                    ctx.count("index_len3")
                nb += 1
        d = call_guard(lambda: sf.decoder(x), expected=(sf.DecoderError,))
        if d[0] != "ok":
            ctx.finding("decoder-rejects-encoder-output", dict(payload, selfies=x[:1000]), repr(d)[:300])
            ctx.case((tname, s), True)
            return x
        r2 = call_guard(lambda: sf.encoder(d[1]), expected=(sf.EncoderError,))
        if (r2[0] != "ok" or r2[1] != x) and r2[0] != "esc" and has_long_percent_run(d[1]):
            # known finding F1: with 100 or more ring bonds the decoder writes '%100', which no SMILES reader - the
            # encoder included - reads back as label 100
            ctx.finding(F1_KEY, dict(payload, selfies=x[:300], decoded=d[1][-200:]),
                        "re-encoding the decoder's output fails or differs, and that output carries a ring label >= 100")
        elif r2[0] != "ok":
            ctx.finding("reencoding-fails", dict(payload, selfies=x[:1000], decoded=d[1][:1000]), repr(r2)[:300])
        elif r2[1] != x:
            ctx.finding("reencoding-unstable", dict(payload, selfies=x[:1000], decoded=d[1][:1000], reencoded=r2[1][:1000]),
                        "encoder(decoder(x)) != x")
        else:
            ctx.count("stable")
        if s_variant is not None:
            rv = call_guard(lambda: sf.encoder(s_variant), expected=(sf.EncoderError,))
            if rv[0] != "ok" or rv[1] != x:
                ctx.finding("equivalent-spellings-differ", dict(payload, variant=s_variant, selfies=x[:800], variant_result=repr(rv)[:800]),
                            "two spellings that differ only in equivalent atom spellings give different results")
            else:
                ctx.count("variant_pairs_equal")
                if s_variant != s:
                    ctx.count("variant_pairs_with_different_text")
        ctx.case((tname, s), len(toks) >= 3 and nb >= 1,
                 sample={"smiles": s[:160], "variant": (s_variant or "")[:160], "selfies": x[:200]} if nb else None)
        return x

    n = 2000 if quick else 80000
    recent = []
    for i in range(n):
        if i % 50 == 0:
            if recent:
                # the symbols just emitted are first decoded under a tight and a roomy table (rejections and
                # acceptances of H-rich symbols included), then the next table is set
                for tt in ({"?": 1}, "octet_rule", {"?": 20}):
                    sf.set_semantic_constraints(tt)
                    for xx in recent[-15:]:
                        call_guard(lambda: sf.decoder(xx), expected=(sf.DecoderError,))
                        ctx.count("cross_table_decodes")
                recent = []
            t = rng.choice([{"?": 12}, {"?": 12}, "default", "hypervalent", "octet_rule", None])
            if t is None:
                t = tablegen.random_table(rng, caps=[4, 6, 8, 12, 20], q=12)
            table = tablegen.set_table_hostile(sf, t, rng, ctx)
            tname = "t%d" % i
        extreme = rng.random() < 0.6
        if extreme:
            m = random_tree_mol(rng, rng.choice([1, 1, 2, 4, 8, 14]), p_ring=0.2, p_bracket=0, p_chiral=0, p_stereo=0.1, table={"?": 3},
                                ncomp=rng.choice([1, 1, 1, 2, 3]))
            dress(m, rng)
            ctx.count("extreme_atoms", sum(1 for a in m.atoms if a.hcount is not None))
        else:
            m = random_tree_mol(rng, rng.choice([3, 6, 10, 20, 40] * 6 + [150, 400]), ncomp=rng.choice([1, 1, 2, 3, 11, 40]),
                                p_ring=rng.choice([0.05, 0.15, 0.4]), table=table)
        if not m.atoms:
            continue
        k = rng.getrandbits(48)
        dab = rng.choice([0, 0, 0, 0.5, 1.0])     # non-standard but accepted: ring digits written after branches
        span = rng.choice(["dfs", "dfs", "random"])
        try:
            s1, _, _, _ = spell(m, random.Random(k), variants=False, explicit_single=0.05, digits_after_branch=dab, spanning=span)
            s2, _, _, _ = spell(m, random.Random(k), variants=True, explicit_single=0.05, vrng=random.Random(k ^ 0x5DEECE66D),
                                digits_after_branch=dab, spanning=span)
        except ValueError:
            ctx.count("too_many_open_labels")       # SMILES has 100 ring labels; this spelling would need more at once
            continue
        try:
            a1, a2 = read_smiles(s1), read_smiles(s2)
            same = (len(a1.atoms) == len(a2.atoms) and a1.bonds == a2.bonds and
                    all(p.key() == q.key() and p.chirality == q.chirality for p, q in zip(a1.atoms, a2.atoms)))
        except SmilesSyntaxError as e:
            ctx.finding("generator-bug", {"smiles": s1, "variant": s2}, str(e))
            continue
        if not same:
            ctx.finding("generator-bug", {"smiles": s1, "variant": s2}, "variant spelling is not the same molecule")
            continue
        if i % 3 == 0:
            # the molecule's symbols are first met by the decoder under a table that is too tight for them (the
            # non-strict encoder does not depend on the table), then K is restored: what the library learnt about a
            # symbol under one table must not survive into another
            pre = call_guard(lambda: sf.encoder(s1, strict=False), expected=(sf.EncoderError,))
            if pre[0] == "ok":
                sf.set_semantic_constraints(rng.choice([{"?": 1}, {"?": 0}, "octet_rule"]))
                call_guard(lambda: sf.decoder(pre[1]), expected=(sf.DecoderError,))
                ctx.count("first_seen_under_tight_table")
            sf.set_semantic_constraints(table)
        xo = check(s1, table, tname, "G5-extreme" if extreme else "G5", s_variant=s2)
        if xo:
            recent.append(xo)

    sf.set_semantic_constraints("default")
    table = sf.get_semantic_constraints()
    for nring in ([5, 17, 18, 257, 258, 300] if quick else [5, 16, 17, 18, 100, 256, 257, 258, 1000, 4000]):
        if quick and (nring + ctx.shard) % 2:
            continue
        blen = rng.choice([0, 20, 300])
        if nring + blen + 4 > 4096:
            blen = 0           # every ring span stays below 16^3 symbols (the documented limit, the property's domain)
        m = macrocycle(rng, nring, tail=rng.randint(0, 3), branch_len=blen)
        s, _, _, _ = spell(m, rng, variants=False)
        check(s, table, "default", "macrocycle")
        check("C1" + "C" * (nring - 2) + "C1" + "C(" + "C" * rng.choice([1, 20, 300]) + ")O", table, "default", "macrocycle-linear")
    # long branches and long rings INSIDE other branches (1-3 index symbols at every nesting level)
    sf.set_semantic_constraints("default")
    table = sf.get_semantic_constraints()
    inner_sizes = [15, 16, 17, 255, 256, 257, 600, 1023, 1024, 1025, 2000, 3900]
    for bl in (inner_sizes[ctx.shard % 4::4] if quick else inner_sizes):
        for depth in (1, 2, 3):
            if bl + 8 * depth > 4090:
                continue
            inner = rng.choice(["N(%s)O" % ("C" * bl), "C1%sC1F" % ("C" * (bl - 2)), "C(%s)(%s)O" % ("C" * (bl // 2), "N" * (bl - bl // 2))])
            s = inner
            for _ in range(depth):
                s = rng.choice(["CC(C%s)N", "S(%s)(F)Cl", "C(C(%s)O)N"]) % s
            check(s, table, "default", "nested-long-branch")
            ctx.count("nested_long_branches")
    # molecules with 100 or more ring bonds (chains of small rings, label reuse in the input)
    sf.set_semantic_constraints("default")
    for k in ([101] if quick else [99, 100, 101, 150, 400]):
        unit = rng.choice(["C1CC1", "C1CCC1", "N1CC1", "C1OC1C"])
        check(unit * k, sf.get_semantic_constraints(), "default", "ring-count-%d" % k)
        ctx.count("molecules_with_100_or_more_rings" if k >= 100 else "molecules_with_99_rings")
    # questionable ring closures: a label that joins two atoms which are bonded already (the digit before or after a
    # branch, at either atom), the same pair twice, an atom with itself - and the legal neighbours of these spellings
    # (label reuse after closing, a real ring through the same positions).  Most are refused; whatever is accepted has
    # to meet the property like any other input
    def lab():
        k = rng.choice([1, 2, 9, 10, 12, 99])
        return (rng.choice(["", "", "=", "-", "/"]) if rng.random() < 0.3 else "") + ("%d" % k if k < 10 and rng.random() < 0.8 else "%%%02d" % k)
    for i in range(150 if quick else 5000):
        a, b, c = (rng.choice(["C", "C", "N", "S", "P", "[CH]", "[C@H]", "[Si]"]) for _ in range(3))
        L, M = lab(), lab()
        t1, t2 = rng.choice(["", "C", "CC", "C(F)C", "CCCC"]), rng.choice(["", "C", "O", "CC"])
        s = rng.choice([
            "%s(%s%s%s)%s%s" % (a, b, L, t1, L, t2), "C%s(%s%s%s)%s%s" % (a, b, L, t1, L, t2), "%s%s(%s%s%s)%s" % (a, L, b, L, t1, t2),
            "%s%s%s%s%s" % (a, L, b, L, t2), "%s%s%s%s%s%s%s%s" % (a, L, M, t1 or "C", b, L, M, t2), "%s%s%s%s" % (a, L, L, t2),
            "%s%s%s%s%s%s%s%s" % (a, L, t1 or "CC", b, L, t2 or "C", c, L) + "CC" + b + L,
            "%s(%s%s%s%s)%s%s" % (a, b, t1 or "C", c, L, L, t2), "%s(%s%s)(%s)%s" % (a, b, L, c, L), "%s.%s(%s%s)%s" % (t1 or "C", a, b, L, L)])
        sf.set_semantic_constraints(rng.choice(["default", "hypervalent", {"?": 12}]))
        ctx.count("questionable_ring_closures")
        if check(s, sf.get_semantic_constraints(), "qr", "questionable-ring-closure") is not None:
            ctx.count("questionable_ring_closures_accepted")
    # every ring / branch symbol kind x every index length, under a lax and the default table
    fam = list(symbol_family_smiles(rng))
    for tt in ({"?": 12}, "default"):
        sf.set_semantic_constraints(tt)
        table = sf.get_semantic_constraints()
        for s, tag in fam[ctx.shard::ctx.nshards]:
            if check(s, table, "fam", "symbol-family:" + tag) is not None:
                ctx.count("symbol_family_accepted")
            ctx.see("symbol_families", tag.rsplit(":", 1)[0])
    # aromatic systems under tight / random tables: whatever strict accepts must decode and be stable
    for i in range(60 if quick else 2000):
        t = tablegen.perturbed_preset(rng) if rng.random() < 0.6 else tablegen.random_table(rng, caps=[2, 3, 3, 4, 4, 5, 6], q=rng.choice([3, 4, 8]))
        try:
            table = tablegen.set_table_hostile(sf, t, rng, ctx)
        except ValueError:
            continue
        m, kind_of, ae = standard_system(rng, nrings=rng.choice([1, 2, 3]))
        s, _, _, _ = spell(m, rng)
        if check(s, table, "tight%d" % i, "aromatic-tight-table") is not None:
            ctx.count("aromatic_tight_accepted")
    sf.set_semantic_constraints({"?": 12})
    table = sf.get_semantic_constraints()
    for i in range(40 if quick else 1500):
        m, kind_of, ae = standard_system(rng, nrings=rng.choice([1, 2, 3]))
        s, _, _, _ = spell(m, rng)
        if check(s, table, "q12", "aromatic") is not None:
            ctx.count("aromatic_ok")
    for k, v in MON.counts.items():
        ctx.count(k, v)


def replay(ctx, payload):
    sf = env.load_selfies()
    sf.set_semantic_constraints(payload["table"])
    s = payload["smiles"]
    r = call_guard(lambda: sf.encoder(s), expected=(sf.EncoderError,))
    if r[0] != "ok":
        return
    x = r[1]
    bad = [t for t in tokens_with_dots(x) if t != "." and classify(t) is None]
    if bad:
        ctx.finding("emits-symbol-outside-grammar", payload, bad[0])
    d = call_guard(lambda: sf.decoder(x), expected=(sf.DecoderError,))
    if d[0] != "ok":
        ctx.finding("decoder-rejects-encoder-output", payload, repr(d))
        return
    r2 = call_guard(lambda: sf.encoder(d[1]), expected=(sf.EncoderError,))
    if r2[0] != "ok" or r2[1] != x:
        ctx.finding("reencoding-unstable", payload, repr(r2)[:300])
    if payload.get("variant"):
        rv = call_guard(lambda: sf.encoder(payload["variant"]), expected=(sf.EncoderError,))
        if rv[0] != "ok" or rv[1] != x:
            ctx.finding("equivalent-spellings-differ", payload, repr(rv)[:300])
