"""Independent executable rendering of docs/source/derivation.rst.

Not a copy of the decoder: iterative with explicit frames and absolute token
positions (the decoder recurses over one shared iterator and counts consumed
symbols), own hand-written symbol parser (no regex), own capacity lookup,
own index arithmetic.  Shares no code with selfies.

Where the document is silent or stale the reference pins what the
repository's own tests pin (listed in ASSUMPTIONS).
"""
from vmon.smiles_reader import ELEMENTS, DIGITS

INF = float("inf")
INDEX_SYMBOLS = ["[C]", "[Ring1]", "[Ring2]", "[Branch1]", "[=Branch1]",
                 "[#Branch1]", "[Branch2]", "[=Branch2]", "[#Branch2]", "[O]",
                 "[N]", "[=N]", "[=C]", "[#C]", "[S]", "[P]"]
_INDEX_OF = {s: i for i, s in enumerate(INDEX_SYMBOLS)}
ORGANIC = frozenset(["B", "C", "N", "O", "S", "P", "F", "Cl", "Br", "I"])

ASSUMPTIONS = [
    "ring symbols consume derivation state like bonds (test_branch_and_ring_decrement_state)",
    "index reads and nested branches may overrun the enclosing branch budget; the enclosing frame then ends (test_oversized_branch)",
    "an atom symbol whose bond order would be 0 in a state > 0 is dropped but still sets the next state (capacity-0 atoms)",
    "ring bonds are numbered and formed across '.'-fragments in one second pass",
    "a symbol ending in 'ch'+2 chars / 'ng'+2 chars is reserved for branch / ring symbols; any symbol containing 'eps' is [epsilon]",
    "explicit H count in a SELFIES atom symbol is exactly one ASCII digit; charge is [+-] followed by a number without leading zero",
    "stereo marks / and \\\\ survive only on bonds whose final order is 1",
]


class RefReject(Exception):
    def __init__(self, symbol, partial=None):
        Exception.__init__(self, symbol)
        self.symbol = symbol
        self.partial = partial   # the RefMol derived so far (nesting statistics)


class RefAtom(object):
    __slots__ = ("element", "isotope", "chirality", "hcount", "charge", "cap",
                 "parent", "children", "rings", "used")

    def key(self):
        return (self.element, self.isotope, self.chirality, self.hcount, self.charge)


class RefMol(object):
    def __init__(self):
        self.atoms = []
        self.bonds = {}
        self.marks = {}
        self.roots = []
        self.attr = []
        self.transitions = set()
        self.rings_queued = 0
        self.rings_made = 0
        self.rings_merged = 0
        self.rings_dropped = 0
        self.max_nesting = 0
        self.n_tokens = 0

    def nbrs(self, i):
        a = self.atoms[i]
        out = []
        if a.parent is not None:
            out.append(a.parent)
        if a.hcount:
            out.append("H")
        out.extend(a.rings)
        out.extend(a.children)
        return out


def capacity(table, element, charge):
    key = element
    if charge > 0:
        key = "%s+%d" % (element, charge)
    elif charge < 0:
        key = "%s-%d" % (element, -charge)
    if key in table:
        return table[key]
    return table["?"]


def split_wellformed(s):
    """s must be a concatenation of [..] symbols (no brackets/dots inside)."""
    out = []
    i = 0
    n = len(s)
    while i < n:
        if s[i] != "[":
            raise ValueError("not well formed at %d" % i)
        j = s.find("]", i)
        if j < 0:
            raise ValueError("unclosed bracket at %d" % i)
        out.append(s[i:j + 1])
        i = j + 1
    return out


def tokens_with_dots(s):
    """Own tokenisation of a well-formed string: symbols and '.' items."""
    out = []
    for k, f in enumerate(s.split(".")):
        if k:
            out.append(".")
        out.extend(split_wellformed(f))
    return out


_BRANCH = {}
_RING = {}
for _L in (1, 2, 3):
    for _o, _c in ((1, ""), (2, "="), (3, "#")):
        _BRANCH["[%sBranch%d]" % (_c, _L)] = (_o, _L)
        _RING["[%sRing%d]" % (_c, _L)] = (_o, _L, None, None)
    for _lc in "-/\\":
        for _rc in "-/\\":
            if _lc == _rc == "-":
                continue
            _RING["[%s%sRing%d]" % (_lc, _rc, _L)] = (
                1, _L, None if _lc == "-" else _lc, None if _rc == "-" else _rc)

_CLASSIFY_CACHE = {}


def classify(sym):
    """-> ('branch', order, L) | ('ring', order, L, lmark, rmark) | ('eps',) |
    ('atom', order, mark, element, isotope, chirality, hcount, charge) | None"""
    try:
        return _CLASSIFY_CACHE[sym]
    except KeyError:
        pass
    r = _classify(sym)
    if len(_CLASSIFY_CACHE) < 200000:
        _CLASSIFY_CACHE[sym] = r
    return r


def _classify(sym):
    if sym in _BRANCH:
        return ("branch",) + _BRANCH[sym]
    if sym in _RING:
        return ("ring",) + _RING[sym]
    if sym[-4:-2] in ("ch", "ng"):
        return None
    if "eps" in sym:
        return ("eps",)
    body = sym[1:-1]
    k = 0
    n = len(body)
    order, mark = 1, None
    if k < n and body[k] in "=#/\\":
        order = {"=": 2, "#": 3}.get(body[k], 1)
        mark = body[k] if body[k] in "/\\" else None
        k += 1
    rest = body[k:]
    if rest in ORGANIC:
        return ("atom", order, mark, rest, None, None, None, 0)
    k0 = k
    while k < n and body[k] in DIGITS:
        k += 1
    if k - k0 > 1000:
        return None
    isotope = int(body[k0:k]) if k > k0 else None
    if not (k < n and "A" <= body[k] <= "Z"):
        return None
    if k + 1 < n and "a" <= body[k + 1] <= "z":
        el = body[k:k + 2]
        k += 2
    else:
        el = body[k]
        k += 1
    if el not in ELEMENTS:
        return None
    chir = None
    if body.startswith("@@", k):
        chir = "@@"
        k += 2
    elif body.startswith("@", k):
        chir = "@"
        k += 1
    h = 0
    if k + 1 < n and body[k] == "H" and body[k + 1] in DIGITS:
        h = int(body[k + 1])
        k += 2
    charge = 0
    if k < n and body[k] in "+-":
        sign = 1 if body[k] == "+" else -1
        k += 1
        k0 = k
        if not (k < n and body[k] in "123456789"):
            return None
        while k < n and body[k] in DIGITS:
            k += 1
        if k - k0 > 1000:
            return None
        charge = sign * int(body[k0:k])
    if k != n:
        return None
    return ("atom", order, mark, el, isotope, chir, h, charge)


def index_value(symbols):
    v = 0
    for s in symbols:
        v = v * 16 + _INDEX_OF.get(s, 0)
    return v


def digits_for(q, L):
    """Q as exactly L index symbols (big endian), Q < 16**L."""
    ds = []
    for _ in range(L):
        ds.append(INDEX_SYMBOLS[q % 16])
        q //= 16
    return ds[::-1]


def shortest_digits(q):
    ds = []
    while True:
        ds.append(INDEX_SYMBOLS[q % 16])
        q //= 16
        if q == 0:
            break
    return ds[::-1]


def ref_decode(selfies, table, tokens=None):
    """selfies: well-formed string.  Returns RefMol or raises RefReject."""
    mol = RefMol()
    ringq = []
    transitions = mol.transitions
    offset = 0
    for frag in selfies.split("."):
        toks = [t for t in split_wellformed(frag) if t != "[nop]"]
        ntok = len(toks)
        p = 0
        # frame: [state, prev atom, absolute limit, enclosing branch symbols]
        frames = [[0, None, INF, ()]]
        while frames:
            f = frames[-1]
            state, prev, limit, encl = f
            if state is None or p >= limit or p >= ntok:
                # the rest of this frame's budget is skipped unread
                p = max(p, min(limit, ntok))
                frames.pop()
                continue
            sym = toks[p]
            sym_pos = p
            p += 1
            c = classify(sym)
            if c is None:
                raise RefReject(sym, mol)
            kind = c[0]
            transitions.add((kind, min(state, 9)))
            if kind == "branch":
                if state <= 1:
                    continue
                m, L = c[1], c[2]
                binit = min(state - 1, m)
                f[0] = state - binit
                got = len(toks[p:p + L])  # missing symbols are low-order zero digits
                q = index_value(toks[p:p + L] + [None] * (L - got))
                p = min(p + L, ntok)
                frames.append([binit, prev, p + q + 1, encl + ((sym_pos + offset, sym),)])
                if len(frames) - 1 > mol.max_nesting:
                    mol.max_nesting = len(frames) - 1
            elif kind == "ring":
                if state == 0:
                    continue
                m, L, lm, rm = c[1], c[2], c[3], c[4]
                mu = min(m, state)
                f[0] = (state - mu) or None
                got = len(toks[p:p + L])
                q = index_value(toks[p:p + L] + [None] * (L - got))
                p = min(p + L, ntok)
                tgt = max(0, prev - (q + 1))
                ringq.append((tgt, prev, mu, lm, rm))
            elif kind == "eps":
                if state != 0:
                    f[0] = None
            else:
                beta, mark, el, iso, chir, h, charge = c[1:]
                cap = capacity(table, el, charge) - (h or 0)
                if cap < 0:
                    raise RefReject(sym, mol)
                mu = 0 if state == 0 else min(beta, state, cap)
                if state == 0 or mu > 0:
                    a = RefAtom()
                    a.element, a.isotope, a.chirality, a.hcount, a.charge = el, iso, chir, h, charge
                    a.cap = cap
                    a.parent = None
                    a.children = []
                    a.rings = []
                    a.used = mu
                    idx = len(mol.atoms)
                    mol.atoms.append(a)
                    mol.attr.append(list(encl) + [(sym_pos + offset, sym)])
                    if state == 0:
                        mol.roots.append(idx)
                    else:
                        a.parent = prev
                        pa = mol.atoms[prev]
                        pa.children.append(idx)
                        pa.used += mu
                        mol.bonds[(prev, idx)] = mu
                        if mark:
                            mol.marks[(prev, idx)] = mark
                    f[1] = idx
                f[0] = (cap - mu) or None
        offset += ntok
        mol.n_tokens += ntok
    # second pass: ring bonds in order of appearance
    mol.rings_queued = len(ringq)
    for tgt, cur, mu, lm, rm in ringq:
        if tgt == cur:
            mol.rings_dropped += 1
            continue
        la, ra = mol.atoms[tgt], mol.atoms[cur]
        lfree, rfree = la.cap - la.used, ra.cap - ra.used
        if lfree <= 0 or rfree <= 0:
            mol.rings_dropped += 1
            continue
        mu = min(mu, lfree, rfree)
        key = (tgt, cur)
        if key in mol.bonds:
            new = min(mol.bonds[key] + mu, 3)
            d = new - mol.bonds[key]
            mol.bonds[key] = new
            mol.rings_merged += 1
        else:
            d = mu
            mol.bonds[key] = mu
            la.rings.append(cur)
            ra.rings.append(tgt)
            if lm:
                mol.marks[(tgt, cur)] = lm
            if rm:
                mol.marks[(cur, tgt)] = rm
            mol.rings_made += 1
        la.used += d
        ra.used += d
    for k in list(mol.marks):
        kk = (min(k), max(k))
        if mol.bonds[kk] != 1:
            del mol.marks[k]
    return mol
