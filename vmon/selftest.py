"""Five-second self-test run by setup.sh: the framework's own parts work and
the code under test is importable from the tree under test."""
import sys


def main():
    from vmon import env
    sf = env.load_selfies()
    from vmon.smiles_reader import read_smiles, read_segmented
    from vmon.refsem import ref_decode
    from vmon.oracles import compare_with_reference
    from vmon.matching import exact_pm
    import icontract  # noqa
    import networkx  # noqa
    t = sf.get_preset_constraints("default")
    for x in ["[C][=C][F]", "[C][C][C][Ring1][Ring1]", "[N][Branch1][C][O][=C].[F]"]:
        m = read_smiles(sf.decoder(x))
        d = compare_with_reference(m, ref_decode(x, t))
        assert d is None, (x, d)
    assert exact_pm(range(4), {0: [1], 1: [0, 2], 2: [1, 3], 3: [2]})
    assert sys.version_info >= (3, 12), "sys.monitoring needs Python 3.12"
    print("vmon self-test ok: selfies from %s" % sf.__file__)


if __name__ == "__main__":
    main()
