"""C01 - every SELFIES string decodes to a syntactically valid, valence-valid
SMILES (DESIGN.md section 5, C01)."""
from vmon import env, hooks, scopes, tablegen
from vmon.hooks import MON, call_guard
from vmon.oracles import judge_output, F1_KEY
from vmon.refsem import classify, capacity, split_wellformed
from vmon.selfgen import LiveGen, mutate_symbols

ID = "C01"
LEVEL = "exploration"
RULE = ("G1: every string of length <= L over four symbol sets (core/highcap/index/stereo) under five tables, "
        "G2: state-aware live strings (lengths 10-600, ring-dense and multi-fragment modes) under random accepted tables, "
        "G3: symbol-level mutations of encoder outputs of the repository's dataset SMILES, "
        "robust-alphabet strings under the default table judged by RDKit, plus the fixed F1 witness; "
        "each decoder output is re-read by an independent strict SMILES reader and every atom's bond-order sum + H is "
        "compared with the table in force. distinct = distinct (table, string); non-trivial = decoded molecule has "
        ">= 3 atoms and at least one ring bond or branch")
ASSUMPTIONS = [
    "the independent SMILES reader (vmon/smiles_reader.py) implements the OpenSMILES subset correctly",
    "RDKit (in /venv) is the 'independent cheminformatics sanitizer' of the last clause, default table only",
    "domain membership (symbols the decoder accepts) is decided by the reference symbol grammar in vmon/refsem.py",
]
F1_WITNESS = "[C][C][C][Ring1][Ring1]" * 100


def shards(tier):
    return 16


def timeout(tier):
    return 1800 if tier == "quick" else 14400


def floors(tier):
    return {"decoded": 20000, "M1.recounts": 20000, "M2.writes": 20000,
            "M3.next_atom_state": 20000, "set:transitions": 20,
            "rdkit_judged": 200, "g2.atoms>=50": 20, "g2.rings>=10": 20,
            "tables": 20, "f1_witness_seen": 1, "table_walk_steps": 300, "repeat_and_flag_variants": 2000}


def _in_domain(tokens, table):
    for t in tokens:
        if t == "[nop]":
            continue
        c = classify(t)
        if c is None:
            return False
        if c[0] == "atom" and capacity(table, c[3], c[7]) - (c[6] or 0) < 0:
            return False
    return True


class Judge(object):
    def __init__(self, ctx):
        self.ctx = ctx
        self.sf = env.varied(env.load_selfies(), ctx)
        self.table = None
        self.tname = None

    def set_table(self, name, table):
        self.table = tablegen.set_table_hostile(self.sf, table, self.ctx.rng, self.ctx)   # the table in force, as the API reports it
        self.tname = name
        self.ctx.count("tables")

    def one(self, x, src, in_domain=None, want_mol=False):
        ctx, sf = self.ctx, self.sf
        payload = {"selfies": x if len(x) < 4000 else x[:4000] + "...", "table": self.table, "src": src}
        if len(x) >= 4000:
            payload["selfies_full"] = x
        r = call_guard(lambda: sf.decoder(x), expected=(sf.DecoderError,))
        for mon, msg in MON.drain():
            ctx.finding("monitor-" + mon, payload, msg)
        if r[0] == "err":
            if in_domain is None:
                try:
                    toks = [t for f in x.split(".") for t in split_wellformed(f)]
                    in_domain = _in_domain(toks, self.table)
                except ValueError:
                    in_domain = False
            if in_domain:
                ctx.finding("decoder-rejects-accepted-symbols", payload, "DecoderError on a string of accepted symbols")
            else:
                ctx.count("rejected_outside_domain")
            ctx.case((self.tname, x), False)
            return None
        if r[0] == "esc":
            ctx.finding("escape:%s@%s" % (r[1], r[2]), payload, r[3])
            ctx.case((self.tname, x), False)
            return None
        out = r[1]
        if src != "G1" and not src.startswith("G1:") and ctx.rng.random() < 0.06:
            # the same string once more, and with the other flag combinations: each returned SMILES is judged like
            # the first (and must be the same text)
            for fl in ({}, {"attribute": True}, {"compatible": True}):
                r2 = call_guard(lambda: sf.decoder(x, **fl), expected=(sf.DecoderError,))
                got = r2[1][0] if (r2[0] == "ok" and fl.get("attribute")) else (r2[1] if r2[0] == "ok" else None)
                ctx.count("repeat_and_flag_variants")
                if got != out:
                    ctx.finding("repeated-or-flagged-call-differs", dict(payload, flags=fl, output=out[:500]),
                                "first call %r, then with %r: %r" % (out[:200], fl, repr(r2)[:200]))
        status, mol, detail = judge_output(out, self.table)
        ctx.count("decoded")
        nontrivial = False
        if status == "ok":
            nontrivial = len(mol.atoms) >= 3 and (mol.n_ring_bonds + mol.n_branches) >= 1
            if mol.n_ring_bonds >= 10:
                ctx.count("rings>=10")
            if mol.max_label >= 10:
                ctx.count("percent_labels")
        elif status == "f1":
            ctx.finding(F1_KEY, payload, detail)
            nontrivial = True
        elif status == "budget":
            ctx.count("segmentation_budget")
        else:
            ctx.finding("%s" % status, dict(payload, output=out[:2000]), detail)
        ctx.case((self.tname, x), nontrivial,
                 sample={"table": self.tname, "selfies": x[:300], "smiles": out[:300]} if len(x) > 20 else None)
        return mol if status in ("ok", "f1") else None


def run(ctx):
    sf = env.varied(env.load_selfies(), ctx)
    hooks.attach_m1()
    hooks.attach_m2(table_fn=sf.get_semantic_constraints)
    hooks.attach_m3(use_icontract=False)
    j = Judge(ctx)
    quick = ctx.tier == "quick"
    rng = ctx.rng

    # ---- G1 exhaustive small scope
    plan = [("core", 4 if quick else 5, ["default", "octet_rule", "hypervalent", "wide", "tight"]),
            ("highcap", 4 if quick else 5, ["wide", "tight"]),
            ("index", 3 if quick else 4, ["default"]),
            ("stereo", 4 if quick else 5, ["default", "hypervalent"])]
    for sname, L, tnames in plan:
        syms = scopes.SETS[sname]
        for tn in tnames:
            j.set_table(tn, scopes.TABLES[tn])
            dom = all(_in_domain([s], j.table) for s in syms if s != ".")
            for x in scopes.enumerate_scope(syms, L, ctx.shard, ctx.nshards):
                j.one(x, "G1:" + sname, in_domain=True if dom else None)
            ctx.count("g1.scopes")

    # ---- F1 witness (always in the workload)
    if ctx.shard == 0:
        j.set_table("default", tablegen.PRESETS["default"])
        j.one(F1_WITNESS, "F1-witness")
        ctx.count("f1_witness_seen")

    # ---- G2 x G4: live strings under random accepted tables
    ntab = 40 if quick else 400
    for ti in range(ntab):
        t = tablegen.any_table(rng)
        try:
            j.set_table("rand", t)
        except ValueError:
            ctx.count("table_rejected")
            continue
        ring_p = rng.choice([0.1, 0.3, 0.5])
        g = LiveGen(j.table, rng, p_ring=ring_p)
        for k in range(30):
            mode = rng.random()
            length = rng.choice([10, 40, 150, 600])
            if mode < 0.15:
                x = g.string(nfrag=1, length=rng.choice([300, 900, 1500]), ring_dense=True)
            else:
                x = g.string(nfrag=rng.choice([1, 1, 2, 3, 3, 12, 40]), length=length if rng.random() < 0.8 else 10)
            m = j.one(x, "G2")
            if m is not None:
                if len(m.atoms) >= 50:
                    ctx.count("g2.atoms>=50")
                if m.n_ring_bonds >= 10:
                    ctx.count("g2.rings>=10")
                if m.fragments >= 2:
                    ctx.count("g2.multifragment")
                if m.max_depth >= 5:
                    ctx.count("g2.depth>=5")

    # ---- walks through related tables: the same atom kinds are decoded again after every single-edit table change
    for w in range(12 if quick else 150):
        t = tablegen.any_table(rng)
        try:
            j.set_table("walk", t)
        except ValueError:
            continue
        g = LiveGen(j.table, rng)
        strings = [g.string(rng.choice([1, 2]), rng.choice([10, 40, 120])) for _ in range(6)]
        # plus strings that saturate each listed kind: [X] followed by many substituents
        for k in [kk for kk in j.table if kk != "?"][:8]:
            strings.append("[%s]" % k + "[Branch1][C][F]" * rng.choice([3, 7, 13]) + "[=O]")
        for step in range(6):
            t = tablegen.neighbour_table(rng, t)
            try:
                j.set_table("walk", t)
            except ValueError:
                break
            for x in strings:
                j.one(x, "table-walk")
            ctx.count("table_walk_steps")

    # ---- G3: mutated encoder outputs of dataset molecules
    data = scopes.dataset_smiles(400 if quick else 4000)
    j.set_table("hypervalent+", dict(tablegen.PRESETS["hypervalent"], **{"P": 7, "P-1": 8, "P+1": 6, "?": 12}))
    mine = data[ctx.shard::ctx.nshards]
    pool = scopes.SETS["core"][:-1] + scopes.SETS["index"] + ['[=O]', '[#C]', '[S]', '[=Ring2]', '[Branch2]']
    for s in mine[: (120 if quick else 100000)]:
        r = call_guard(lambda: sf.encoder(s, strict=False), expected=(sf.EncoderError,))
        if r[0] != "ok":
            ctx.count("g3.encoder_rejects")
            continue
        toks = [t for t in split_tokens(r[1])]
        for _ in range(2):
            x = "".join(mutate_symbols(toks, rng, pool))
            j.one(x, "G3")
            ctx.count("g3.cases")

    # ---- last clause: robust alphabet under the default table, judged by RDKit
    try:
        from rdkit import Chem, RDLogger
        RDLogger.DisableLog("rdApp.*")
    except ImportError:
        ctx.inconclusive_reason("RDKit not importable: last clause of C01 not judged")
        Chem = None
    if Chem is not None:
        j.set_table("default", tablegen.PRESETS["default"])
        alphabet = sorted(sf.get_semantic_robust_alphabet())
        aset = set(alphabet)
        g = LiveGen(j.table, rng, stereo=False, pool=[k for k in j.table if k != "?"])
        n = 400 if quick else 6000
        for i in range(n):
            if i % 2:
                x = "".join(rng.choice(alphabet) for _ in range(rng.randint(1, 80)))
            else:
                x = g.string(1, rng.choice([10, 30, 80, 200]))
                x = "".join(t for t in split_tokens(x) if t in aset)
            m = j.one(x, "robust/default")
            if m is None or m.seg is not None:
                continue
            out = sf.decoder(x)
            if out == "":
                continue
            ok = None
            try:
                ok = Chem.MolFromSmiles(out)
            except Exception:
                ok = None
            ctx.count("rdkit_judged")
            if ok is None:
                ctx.finding("rdkit-rejects", {"selfies": x, "table": j.table, "output": out}, "RDKit sanitizer rejects the output")

    for t in MON.transitions:
        ctx.see("transitions", t)
    for k, v in MON.counts.items():
        ctx.count(k, v)
    for u in MON.unreached:
        ctx.see("unreached_monitors", u)


def split_tokens(x):
    out = []
    for f in x.split("."):
        if out:
            out.append(".")
        out.extend(split_wellformed(f))
    return [t for t in out]


def replay(ctx, payload):
    sf = env.load_selfies()
    hooks.attach_m1()
    hooks.attach_m2(table_fn=sf.get_semantic_constraints)
    hooks.attach_m3()
    j = Judge(ctx)
    j.set_table("replay", payload["table"])
    j.one(payload.get("selfies_full", payload["selfies"]), "replay")
    for k, v in MON.counts.items():
        ctx.count(k, v)
