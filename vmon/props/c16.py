"""C16 - index symbols form a base-16 positional code that encoder and decoder
share.  Exhaustive over the stated finite space."""
import itertools

from vmon import env
from vmon.hooks import call_guard
from vmon.oracles import judge_output, compare_with_reference
from vmon.refsem import INDEX_SYMBOLS, index_value, shortest_digits, digits_for, ref_decode, RefReject
from vmon.smiles_reader import read_smiles, SmilesSyntaxError

ID = "C16"
LEVEL = "exploration"
EXHAUSTIVE = True
RULE = ("exhaustive: every n in 0..65535 through the encoder-side conversion (shortest big-endian base-16 digits over the documented "
        "symbol order) and back through the decoder-side conversion; every triple over {16 index symbols, 20 non-index symbols, "
        "missing} through the decoder-side conversion (16 index + 20 non-index symbols incl. near misses such as [/O], [=Ring1], [Branch3], [CH0], + missing: 37^3 = 50653); at API level every Q < 4096: a crafted ring string and a crafted "
        "branch string whose decoded ring size / branch length must be Q+1 (Q symbols of length 1, 2 and 3), ring / branch symbols whose index symbols straddle the end of an enclosing branch (judged by the reference derivation), and for every ring size / "
        "branch length up to 4096 a macrocycle / long-branch SMILES whose encoding must carry the shortest digits of Q. Sampled: "
        "larger n up to 16^6. distinct = distinct case; non-trivial = n >= 16 or a triple with a non-index symbol")
ASSUMPTIONS = ["the documented order is [C]=0, [Ring1]=1, [Ring2]=2, [Branch1]=3, [=Branch1]=4, [#Branch1]=5, [Branch2]=6, [=Branch2]=7, "
               "[#Branch2]=8, [O]=9, [N]=10, [=N]=11, [=C]=12, [#C]=13, [S]=14, [P]=15",
               "the two conversion helpers are reached as selfies.grammar_rules.get_selfies_from_index / get_index_from_selfies; if they "
               "disappear the API-level part still decides the property"]


NON_INDEX = ['[F]', '[Xx]', '[=O]', '[epsilon]', '[/O]', '[\\N]', '[/C]', '[\\S]', '[/P]', '[#N]', '[=S]', '[=P]', '[#P]', '[=Ring1]',
             '[/Ring2]', '[Ring3]', '[Branch3]', '[=Branch3]', '[CH0]', '[N+1]']


def shards(tier):
    return 16


def floors(tier):
    return {"helper_n": 65536, "helper_triples": 50653, "api_ring_Q": 4096, "api_branch_Q": 4096, "api_truncated_index": 3000, "api_index_across_branch_end": 5000, "api_encoder_ring": 150,
            "api_encoder_branch": 150}


def run(ctx):
    sf = env.varied(env.load_selfies(), ctx)
    G = env.mods()["grammar_rules"]
    to_sym = getattr(G, "get_selfies_from_index", None)
    to_idx = getattr(G, "get_index_from_selfies", None)
    quick = ctx.tier == "quick"
    sh, ns = ctx.shard, ctx.nshards
    if to_sym is None or to_idx is None:
        ctx.see("unreached_monitors", "index helpers")
    else:
        for n in range(sh, 65536, ns):
            exp = shortest_digits(n)
            r = call_guard(lambda: to_sym(n))
            ctx.count("helper_n")
            ctx.case(("n", n), n >= 16)
            if r != ("ok", exp):
                ctx.finding("encoder-side-digits-wrong", {"n": n}, "got %r want %r" % (r, exp))
                continue
            b = call_guard(lambda: to_idx(*exp))
            if b != ("ok", n):
                ctx.finding("decoder-side-value-wrong", {"n": n, "symbols": exp}, "got %r" % (b,))
        rng = ctx.rng
        big = [16 ** k + d for k in range(4, 70) for d in (-2, -1, 0, 1)] + [2 ** k + d for k in range(17, 260, 3) for d in (-1, 0, 1)]
        for _ in range(300 if quick else 5000):
            x = rng.random()
            if x < 0.4:
                n = rng.randrange(65536, 16 ** 6)
            elif x < 0.7:
                n = rng.randrange(16 ** 6, 16 ** rng.randint(7, 70))       # every magnitude, far beyond float precision
            else:
                n = rng.choice(big)                                         # just below / at / above a power of 16 or 2
            exp = shortest_digits(n)
            r = call_guard(lambda: to_sym(n))
            b = call_guard(lambda: to_idx(*exp))
            ctx.case(("n", n), True)
            if r != ("ok", exp) or b != ("ok", n):
                ctx.finding("large-index-wrong", {"n": n}, "%r %r" % (r, b))
        if sh == 0:
            r = call_guard(lambda: to_sym(-1))
            if r[0] == "ok":
                ctx.finding("negative-index-accepted", {"n": -1}, repr(r))
        # non-index symbols: unrelated ones and near misses of the sixteen (another bond prefix, a stereo mark, another
        # index length, a charge or H count on an index atom)
        pool = INDEX_SYMBOLS + NON_INDEX + [None]
        i = 0
        for t in itertools.product(pool, repeat=3):
            i += 1
            if i % ns != sh:
                continue
            # 'missing' only makes sense as a suffix (end of string)
            if any(t[k] is None and t[k + 1] is not None for k in range(2)):
                ctx.count("helper_triples")
                continue
            r = call_guard(lambda: to_idx(*t))
            ctx.count("helper_triples")
            ctx.case(("triple", t), any(x not in INDEX_SYMBOLS for x in t))
            if r != ("ok", index_value(list(t))):
                ctx.finding("decoder-side-triple-wrong", {"symbols": list(t)}, "got %r want %d" % (r, index_value(list(t))))
    # ---- API level, decoder: ring size / branch length must be Q+1
    sf.set_semantic_constraints("default")
    for Q in range(sh, 4096, ns):
        L = 1 if Q < 16 else (2 if Q < 256 else 3)
        for LL in ([L] if (quick and Q >= 256) else sorted(set([L, 3]))):
            ds = "".join(digits_for(Q, LL))
            n = Q + 2
            x = "[C]" * n + "[Ring%d]" % LL + ds
            d = call_guard(lambda: sf.decoder(x), expected=(sf.DecoderError,))
            ok = False
            if d[0] == "ok":
                try:
                    m = read_smiles(d[1])
                    ring = [k for k, kind in m.bond_kind.items() if kind == "ring"]
                    if Q == 0:
                        ok = m.bonds.get((n - 2, n - 1)) == 2 and not ring     # ring onto the existing bond
                    else:
                        ok = ring == [(n - 1 - (Q + 1), n - 1)]
                except SmilesSyntaxError:
                    ok = False
            if not ok:
                ctx.finding("decoder-ring-size-not-Q+1", {"selfies": x if len(x) < 400 else None, "Q": Q, "L": LL}, repr(d)[:200])
            if Q % 7 == 3:
                # the flags do not change what the index symbols mean
                for fl in ({"attribute": True}, {"compatible": True}, {"attribute": True, "compatible": True}):
                    df = call_guard(lambda: sf.decoder(x, **fl), expected=(sf.DecoderError,))
                    got = df[1][0] if (df[0] == "ok" and fl.get("attribute")) else (df[1] if df[0] == "ok" else None)
                    ctx.count("api_ring_Q_flag_variants")
                    if d[0] == "ok" and got != d[1]:
                        ctx.finding("decoder-ring-size-not-Q+1", {"selfies": x if len(x) < 400 else None, "Q": Q, "L": LL, "flags": fl},
                                    "with %r the decoder returns %r" % (fl, (got or df[:2])[:120] if isinstance(got, str) else df[:2]))
            y = "[S][Branch%d]" % LL + ds + "[C]" * (Q + 3) + "[O]"
            d = call_guard(lambda: sf.decoder(y), expected=(sf.DecoderError,))
            ok = False
            if d[0] == "ok":
                # branch takes exactly Q+1 carbons; the remaining 2 carbons and O continue the main chain
                ok = d[1] == "S(" + "C" * (Q + 1) + ")CCO"
            if not ok:
                ctx.finding("decoder-branch-length-not-Q+1", {"selfies": y if len(y) < 400 else None, "Q": Q, "L": LL}, repr(d)[:200])
        ctx.count("api_ring_Q")
        ctx.count("api_branch_Q")
        ctx.case(("Q", Q), True, sample={"Q": Q, "ring_string": "[C]*%d + [Ring%d] + %s" % (Q + 2, L, "".join(digits_for(Q, L)))} if Q in (17, 300) else None)
    # ---- API level, decoder: index symbols missing at the end of the string (or of a fragment) count as digit 0,
    # whatever was decoded before (the same leading digits are read complete and truncated, alternately)
    rng = ctx.rng
    lead = INDEX_SYMBOLS[1:]
    for it in range(250 if quick else 6000):
        L = 2 if rng.random() < 0.88 else 3
        have = rng.randint(0, L - 1)
        ds = [rng.choice(lead) for _ in range(have)]
        q_trunc = index_value(ds + [None] * (L - have))
        q_full = index_value(ds) if ds else 0
        n = min(4200, max(q_trunc, q_full) + rng.choice([2, 3, 8]))
        for variant, q, syms, Lx in (("complete", q_full, ds, max(1, have)), ("truncated", q_trunc, ds, L)):
            if variant == "complete" and not ds:
                continue
            x = "[C]" * n + "[Ring%d]" % Lx + "".join(syms)
            if rng.random() < 0.3:
                x = x + ".[O]"          # the end of a fragment, not of the string
            d = call_guard(lambda: sf.decoder(x), expected=(sf.DecoderError,))
            ok = False
            if d[0] == "ok":
                try:
                    m = read_smiles(d[1])
                    ring = [k for k, kind in m.bond_kind.items() if kind == "ring"]
                    tgt = max(0, (n - 1) - (q + 1))
                    if tgt == n - 2:
                        ok = m.bonds.get((n - 2, n - 1)) == 2 and not ring
                    else:
                        ok = ring == [(tgt, n - 1)]
                except SmilesSyntaxError:
                    ok = False
            ctx.count("api_truncated_index")
            ctx.case(("trunc", variant, tuple(syms), Lx, n), True)
            if not ok:
                ctx.finding("decoder-missing-index-symbols-not-zero", {"selfies": x if len(x) < 300 else None, "n_atoms": n,
                                                                       "ring_symbol_len": Lx, "digits": syms, "variant": variant,
                                                                       "expected_Q": q}, repr(d)[:200])

    # ---- API level, decoder: only the end of the string (fragment) makes an index symbol "missing". A ring / branch symbol
    # that sits near the end of a branch still takes its index symbols from what follows the branch: bodies of atoms and
    # ring / branch symbols are wrapped in a branch whose declared length cuts them at every position, also inside a digit
    # run, and judged against the reference derivation
    table = sf.get_semantic_constraints()
    atoms = ["[C]", "[N]", "[O]", "[=C]", "[S]", "[P]", "[F]", "[#C]", "[=N]"]
    for it in range(400 if quick else 12000):
        body = []
        for _ in range(rng.randint(1, 6)):
            body += [rng.choice(atoms) for _ in range(rng.randint(0, 4))]
            L = rng.choice([1, 1, 2, 2, 3])
            body.append(rng.choice(["[Ring%d]", "[=Ring%d]", "[Branch%d]", "[=Branch%d]", "[#Branch%d]"]) % L)
            body += [rng.choice(INDEX_SYMBOLS if rng.random() < 0.7 else INDEX_SYMBOLS[:4]) for _ in range(L)]
        cut = rng.randint(1, len(body) + 1)
        x = "".join([rng.choice(atoms) for _ in range(rng.randint(1, 6))] + ["[Branch1]"] + shortest_digits(cut - 1)[:1]
                    + body + [rng.choice(atoms) for _ in range(rng.randint(0, 4))])
        if rng.random() < 0.2:
            x += ".[C][O]"
        d = call_guard(lambda: sf.decoder(x), expected=(sf.DecoderError,))
        ctx.count("api_index_across_branch_end")
        ctx.case(("straddle", x), True, sample={"selfies": x} if it == 3 else None)
        try:
            ref = ref_decode(x, table)
        except RefReject:
            ref = None
        if d[0] != "ok" or ref is None:
            if not (d[0] == "err" and ref is None):
                ctx.finding("index-symbols-across-branch-end-wrong", {"selfies": x}, "decoder %r, reference %s" % (d[:2], "accepts" if ref else "rejects"))
            continue
        status, _, detail = judge_output(d[1], None, accept=lambda m: compare_with_reference(m, ref))
        if status not in ("ok", "budget"):
            ctx.finding("index-symbols-across-branch-end-wrong", {"selfies": x, "output": d[1]}, "%s: %s" % (status, detail))

    # ---- API level, encoder: emitted digits are the shortest digits of Q
    sizes = list(range(3, 40)) + [255, 256, 257, 258, 259, 1000, 4095, 4096, 4097] + list(range(40, 4097, 37))
    for n in sizes[sh::ns]:
        Q = n - 2
        s = "C1" + "C" * (n - 2) + "C1"
        e = call_guard(lambda: sf.encoder(s), expected=(sf.EncoderError,))
        ds = shortest_digits(Q)
        want = "[C]" * n + "[Ring%d]" % len(ds) + "".join(ds)
        ctx.count("api_encoder_ring")
        ctx.case(("enc-ring", n), True)
        if n - 1 <= 4096 and e != ("ok", want):
            ctx.finding("encoder-ring-digits-wrong", {"smiles": s if n < 200 else None, "ring_size": n}, "got %s" % (repr(e)[-200:],))
        bl = n - 1
        s = "N(" + "C" * bl + ")O"
        e = call_guard(lambda: sf.encoder(s), expected=(sf.EncoderError,))
        ds = shortest_digits(bl - 1)
        want = "[N][Branch%d]" % len(ds) + "".join(ds) + "[C]" * bl + "[O]"
        ctx.count("api_encoder_branch")
        ctx.case(("enc-branch", bl), True)
        if e != ("ok", want):
            ctx.finding("encoder-branch-digits-wrong", {"smiles": s if bl < 200 else None, "branch_len": bl}, "got %s" % (repr(e)[:200],))


def replay(ctx, payload):
    env.load_selfies()
    G = env.mods()["grammar_rules"]
    if "n" in payload:
        n = payload["n"]
        r = call_guard(lambda: G.get_selfies_from_index(n))
        if r != ("ok", shortest_digits(n)):
            ctx.finding("encoder-side-digits-wrong", payload, repr(r))
    elif "symbols" in payload:
        t = payload["symbols"]
        r = call_guard(lambda: G.get_index_from_selfies(*t))
        if r != ("ok", index_value(t)):
            ctx.finding("decoder-side-triple-wrong", payload, repr(r))
    elif payload.get("selfies"):
        sf = env.load_selfies()
        x = payload["selfies"]
        d = call_guard(lambda: sf.decoder(x), expected=(sf.DecoderError,))
        try:
            ref = ref_decode(x, sf.get_semantic_constraints())
        except RefReject:
            ref = None
        if d[0] != "ok" or ref is None:
            if not (d[0] == "err" and ref is None):
                ctx.finding("index-symbols-across-branch-end-wrong", payload, repr(d[:2]))
            return
        status, _, detail = judge_output(d[1], None, accept=lambda m: compare_with_reference(m, ref))
        if status not in ("ok", "budget"):
            ctx.finding("index-symbols-across-branch-end-wrong", payload, "%s: %s" % (status, detail))
