#!/usr/bin/env python3
"""For every seeded change whose meta.json says the whole suite has not been run by us yet: apply it to a scratch copy,
run the repository's whole suite there in one process, record the outcome in meta.json (REJECT = remove by hand)."""
import json
import os
import shutil
import sys
from concurrent.futures import ThreadPoolExecutor

ROOT = os.path.dirname(os.path.dirname(os.path.abspath(__file__)))
sys.path.insert(0, os.path.join(ROOT, "tools"))
from run_mutants import make_copy, sh  # noqa


def one(name):
    d0 = os.path.join(ROOT, "seeded", name)
    meta = json.load(open(os.path.join(d0, "meta.json")))
    if meta.get("verified", {}).get("full_suite_run"):
        return name, "already"
    d = make_copy("full-" + name)
    rc, out = sh(["patch", "-p1", "-d", d, "-i", os.path.join(d0, "patch.diff")])
    if rc != 0:
        shutil.rmtree(d, ignore_errors=True)
        return name, "PATCH DOES NOT APPLY"
    env = dict(os.environ, PYTHONPATH=d, PYTHONDONTWRITEBYTECODE="1")
    rc, out = sh(["/venv/bin/python", "-m", "pytest", "-q", "-p", "no:cacheprovider", "tests"], env, d, timeout=3000)
    failed = [l for l in out.splitlines() if l.startswith("FAILED")]
    unexpected = [l for l in failed if not any(t in l for t in ("test_path1]", "test_path6]", "test_path12]"))]
    tail = [l for l in out.strip().splitlines() if "passed" in l or "failed" in l][-1:] or [out[-200:]]
    ok = not unexpected and "passed" in tail[0]
    meta.setdefault("verified", {})["full_suite_run"] = True
    meta["verified"]["full_suite_with_change"] = tail[0].strip()
    meta["verified"]["full_suite_ok"] = ok
    json.dump(meta, open(os.path.join(d0, "meta.json"), "w"), indent=1)
    shutil.rmtree(d, ignore_errors=True)
    return name, ("ok " if ok else "REJECT ") + tail[0].strip() + (" " + ";".join(unexpected)[:200] if unexpected else "")


if __name__ == "__main__":
    names = sorted(n for n in os.listdir(os.path.join(ROOT, "seeded")) if os.path.exists(os.path.join(ROOT, "seeded", n, "meta.json")))
    with ThreadPoolExecutor(4) as ex:
        for name, res in ex.map(one, names):
            if res != "already":
                print(name, res, flush=True)
